# Included by mkmanifest.py. One claim() per property whose check exists and
# passes on the unchanged tree; PENDING for claimed-in-design but unbuilt.

ENGINES = [
 {"name": "cancelsim", "path": "sim/c19.go", "serves_properties": ["C19"],
  "kind_free_text": "iterator-consumer party that cancels at every yield position of seeded join trees (fault F8); independent explicit-stack flattening as reference"},
]

NOTES = ("Technique family: deterministic simulation with fault injection. One binary (sim/, `simcheck`), one PRNG stream per run "
         "PCG(VERIF_SEED, run index); plans are explicit JSON, execution is a pure function of the plan; violations are minimised on the plan, "
         "written to replays/<id>/ and confirmed by replay in a fresh process before VIOLATION is printed. Exit 2 = harness/build trouble, never a verdict.")

claim("C19", "cancelsim", "fault_enumeration",
      "deterministic simulation: seeded join trees x exhaustive enumeration of consumer-cancellation points (fault injection at every yield), independent flattening oracle",
      "Per generated error tree every cancellation position 0..n is enumerated for three consumers (range+break, raw callback returning false and counting later calls, iter.Pull+stop); the trees (depth<=6, fan-out<=5, joins of one, nested joins) and the real configuration errors (1..8 planted violations through NewMiddleware and Reconfigure) are sampled by seed. Complete over cancellation points per tree, sampling over tree shapes: fault_enumeration is the honest level.",
      "Trusted: the 15-line explicit-stack flattening used as reference, pointer identity of leaves, Go's iter.Pull. Domain restricted to errors.Join trees, as cfgerrors.All documents.",
      "DESIGN §3 C19")

PENDING.update({
 "C02": "check under construction (protosim: browser/intermediary protocol simulation) — not yet claimed",
 "C06": "check under construction (histsim with snapshot/restore faults) — not yet claimed",
 "C07": "check under construction (concsim: controlled interleavings + porcupine) — not yet claimed",
 "C08": "check under construction (histsim with rejected-Reconfigure faults) — not yet claimed",
 "C09": "check under construction (histsim against the documented debug state machine) — not yet claimed",
 "C10": "check under construction (cachesim: Vary-honouring shared cache) — not yet claimed",
 "C11": "check under construction (histsim with scripted handler/recording writer) — not yet claimed",
 "C12": "check under construction (histsim with memory-mutation faults) — not yet claimed",
})
