# Included by mkmanifest.py. One claim() per property whose check exists and
# passes on the unchanged tree; PENDING for claimed-in-design but unbuilt.

ENGINES = [
 {"name": "concsim", "path": "sim/c07.go + sim/stress.go + tools/instrument", "serves_properties": ["C07"],
  "kind_free_text": "baton-passing scheduler over an AST-instrumented scratch copy of the working tree (schedule point before every statement, lock acquisition routed through the simulator); plan-driven burst preemptions and re-entrant operator calls at the ResponseWriter/handler seams; history checked with porcupine against the sequential real code; -race stress companion for the data-race clause"},
 {"name": "histsim", "path": "sim/hist.go sim/c09.go sim/c11.go sim/c12.go", "serves_properties": ["C06", "C08", "C09", "C11", "C12"],
  "kind_free_text": "seeded call histories on stateful middlewares with faults placed inside them: snapshot/restore (C06), rejected Reconfigure (C08), SetDebug/Reconfigure sequences against the documented state machine (C09), scripted handler + recording writer (C11), memory-mutation faults on every slice shared with callers (C12)"},
 {"name": "protosim", "path": "sim/c02.go", "serves_properties": ["C02"],
  "kind_free_text": "browser <-> header-altering intermediary <-> real middleware protocol runs; executable Fetch client; independent what-the-Config-means predicate"},
 {"name": "cachesim", "path": "sim/c10.go", "serves_properties": ["C10"],
  "kind_free_text": "clients -> Vary-honouring shared cache model -> real middleware, with shadow fetch on every hit"},
 {"name": "cancelsim", "path": "sim/c19.go sim/conc19.go + tools/instrument", "serves_properties": ["C19"],
  "kind_free_text": "iterator-consumer party that cancels at every yield position of seeded join trees (fault F8); independent explicit-stack flattening as reference; stage 1: several consumer tasks under the baton-passing scheduler on the AST-instrumented copy (concurrent-consumers world)"},
]

NOTES = ("Technique family: deterministic simulation with fault injection. One binary (sim/, `simcheck`), one PRNG stream per run "
         "PCG(VERIF_SEED, run index); plans are explicit JSON, execution is a pure function of the plan; violations are minimised on the plan, "
         "written to replays/<id>/ and confirmed by replay in a fresh process before VIOLATION is printed. Exit 2 = harness/build trouble, never a verdict. "
         "Worker processes start in varied environments (GOMAXPROCS; environment variables the tree reads by literal name), recorded in the replay file; "
         "at step boundaries a plan-derived stream repeats operator calls hundreds to tens of thousands of times, soaks a middleware with requests, and lets a second middleware with a derived configuration come, act and go (sim/background.go); for a tree that imports \"time\" the build routes time.Now/Since/Until/Sleep through a simulated clock that jumps between the steps of a run (not built for the pinned tree, which has no clock).")

claim("C19", "cancelsim", "fault_enumeration",
      "deterministic simulation: seeded join trees x exhaustive enumeration of consumer-cancellation points (fault injection at every yield), independent flattening oracle",
      "Per generated error tree every cancellation position 0..n is enumerated for three consumers (range+break, raw callback returning false and counting later calls, iter.Pull+stop); the trees (depth<=6, fan-out<=5, joins of one, nested joins) and the real configuration errors (1..8 planted violations through NewMiddleware and Reconfigure) are sampled by seed. Complete over cancellation points per tree, sampling over tree shapes: fault_enumeration is the honest level. Stage 1 of the check (schedule-controlled build): 2..3 consumer tasks traversing the same or unrelated error values at once, one runnable at a time, preempted at planned statement-level schedule points inside cfgerrors; half of those runs belong to sweep blocks that enumerate the suspension point of the first traversal; that stage is sampling (exploration) and is reported inside the same evidence file.",
      "Trusted: the 15-line explicit-stack flattening used as reference, pointer identity of leaves, Go's iter.Pull. Domain restricted to errors.Join trees, as cfgerrors.All documents.",
      "DESIGN §3 C19")


SIM = "deterministic simulation with fault injection: "

claim("C02", "protosim", "exploration",
      SIM + "seeded multi-party protocol runs (executable Fetch browser, intermediary injecting tolerated ACRH alterations in flight, debug mode as live state) against the real middleware; oracle = independent permits(Config, intent) predicate",
      "Every run draws an accepted configuration (reached through one of six API routes or a random walk of operator calls), 1..4 browser intents and 0..3 in-flight alterations; each intent is executed four ways (debug off/on x unaltered/altered) as a complete preflight+actual protocol run, and the browser's verdict must equal what the configuration means. Sampling by seed over configurations x intents x alterations: exploration.",
      "Trusted: the ~150-line browser model (Fetch CORS-preflight fetch 7.x, CORS check, extract header list values, PNA) and the 40-line permits predicate written from the Config documentation; net/http's server is not in the loop (requests are built the way it delivers them); the CORS-preflight cache of a browser is modelled in one of the worlds (simulated clock, max-age caps of the three engines); only browser-serialisable tuple origins.",
      "DESIGN §3 C02")
claim("C06", "histsim", "exploration",
      SIM + "seeded call histories with snapshot/restore faults (Reconfigure(Config()), restart from Config(), double restore, restore through passthrough) at arbitrary positions; differential oracle real-code-before vs real-code-after plus constructor twins",
      "3..12-step histories over 1..3 accepted configurations; at every restore/restart fault the full probe suite (matching origins and near-misses of every pattern, all dispatch paths) is compared before/after, Config() must be a fixpoint after the first round trip, and NewMiddleware(c), NewMiddleware(*Config()) and zero-value+Reconfigure(&c) must agree in both debug modes. Seeded sampling: exploration.",
      "Differential: holds no opinion on the right CORS answer. Behaviour outside the derived probe suite (~260 requests per configuration) is not observed.",
      "DESIGN §3 C06")
claim("C07", "concsim", "exploration",
      SIM + "plan-driven baton scheduler over an AST-instrumented copy of the working tree (preemption possible before every statement; lock acquisition simulated), burst preemptions + re-entrant operator calls at writer/handler seams, history checked for linearizability (porcupine) against the sequential real code; -race stress companion for the data-race clause",
      "Each run executes 2..5 tasks (requests chosen to discriminate the states in play; Reconfigure/SetDebug/Config/Reconfigure(Config())/rejected Reconfigure) under a seeded schedule with 0..4 burst preemptions placed uniformly over the measured schedule points of a victim operation; the recorded invoke/return history must be linearizable w.r.t. the same code run sequentially; deadlock and panics are violations. A quarter of the runs belong to enumerating sweep blocks: 192 runs share one small scenario and run i preempts the victim operation at its i-th schedule point, so for the sampled scenarios the other party acting at every point of the victim operation is enumerated completely; a quarter of the blocks overlap two operator calls only and end in a revealing operator call before the observing requests. Scenarios and all other schedules are sampled: exploration. The data-race clause is decided by a separate free-running -race stress, which is observation of real executions and is labelled as such.",
      "Trusted: the instrumenter (syntactic; the repository's tests are run on the instrumented copy with hooks off on every check), porcupine v1.3.0, Go's race detector. Assumes the library starts no goroutines. Histories are short (<= ~25 operations).",
      "DESIGN §3 C07")
claim("C08", "histsim", "exploration",
      SIM + "seeded call histories with rejected-Reconfigure faults (valid configuration different from the current one + 1..4 planted documented violations) at arbitrary positions; differential oracle before/after",
      "2..10-step histories from passthrough and configured states with debug on/off; at every rejected Reconfigure the error must be non-nil and the probe suite (incl. probes derived from the rejected configuration), Config() and the debug probe must be identical before and after; a shadow twin that lives through the same history without the rejected calls must stay indistinguishable (latent traces that only a later successful call reveals); the rejected call is also made to land inside the request stream (request, rejected Reconfigure, the same request again, at every 8th position of the suite). Seeded sampling: exploration.",
      "The violation catalogue (12 kinds, ~90 literal values) contains only cases the Config documentation calls prohibited. Differential oracle; behaviour outside the probe suite is not observed.",
      "DESIGN §3 C08")
claim("C09", "histsim", "exploration",
      SIM + "seeded operation histories over SetDebug/Reconfigure(nil|A|B|invalid) from both start states, observed after every step against an independent 2-variable state machine transcribed from the documentation",
      "Sequences of length 1..8 (the space up to length 6 is ~9e4 and is covered many times over per quick run) x seeded configurations with an observable debug probe; passthrough detection, Config() nil-ness and the failing-preflight debug probe after every step; plus a debug-on/debug-off twin comparison over the whole probe suite for the second clause. Seeded sampling: exploration.",
      "Trusted: the 15-line state machine and the reading of 'changes only diagnostics' stated in the evidence assumptions (successful preflights may differ in the Access-Control-Allow-Headers value only).",
      "DESIGN §3 C09")
claim("C10", "cachesim", "exploration",
      SIM + "seeded request arrival orders through a Vary-honouring shared-cache model (cache interposition and duplication as faults) with a shadow fetch to the real middleware on every hit",
      "Per run one configuration (a quarter of the time reached from a prior configuration that served requests), debug mode, optional outer Vary value and 4..24 requests (populating requests plus victims derived by mutating Origin/ACRM/ACRH/ACRPN/unrelated headers); on every cache hit the stored response must equal what the middleware answers the hitting request; pre-set Vary values must survive. Seeded sampling: exploration.",
      "Cache model = strictest reading of RFC 9111 section 4.1 (byte-identical field-line sequences), which yields the fewest agreeing pairs and therefore no alarm from a cache being cleverer than required. Zero-length header value lists (not representable on the wire) are not generated.",
      "DESIGN §3 C10")
claim("C11", "histsim", "exploration",
      SIM + "histories through passthrough and several configurations; after every step the full method x Origin-shape x ACRM-shape grid with seeded pre-set headers and scripted handlers, observed through a recording ResponseWriter and an identity-recording handler",
      "Exactly-once / same-identity / conservation invariants and an independent preflight predicate are checked on ~160 requests after every history step: handler never invoked and no body for preflights on a configured middleware; otherwise one invocation with the identical request and writer, only Vary-append and ACAO/ACAC/ACEH changes between pre-set and handler-visible headers, no writer call before WriteHeader by the middleware, none after the handler returns, script status/body/headers delivered. Seeded sampling of histories, presets and scripts: exploration.",
      "Whether the middleware is configured is taken from the plan (last successful Reconfigure). Status/headers of preflight responses are deliberately not judged here (C02/C03/C16).",
      "DESIGN §3 C11")
claim("C12", "histsim", "exploration",
      SIM + "several middlewares alive at once under memory-mutation faults (scribbling over every slice, incl. spare capacity, reachable from Config arguments, Config() results, request and response headers visible to the wrapped handler) and duplicated/foreign requests; differential oracle against a baseline recorded before any fault",
      "5..40-step histories over 1..3 middlewares (optionally sharing the very same Config value); after every step all probe suites, in a plan-derived permuted order, and Config() must equal their reference (the pre-fault baseline; after a reconfiguration to another configuration or with an in-place edited Config: a fresh middleware of that configuration). A violation that only reproduces after the preceding runs of its worker process (state leaking through process-global memory) is reported with a worker-prefix replay. Seeded sampling: exploration.",
      "Differential oracle. An outer party scribbling over a finished preflight response (which aliases package-level singletons by design) is outside the property and not injected.",
      "DESIGN §3 C12")
