#!/usr/bin/env bash
# seedsweep.sh <tier> <seed>... — runs every check at the given tier for each seed on $VERIF_REPO (default /repo),
# evidence/replays redirected to scratch; prints one line per run. Any non-zero exit on the unchanged tree is a defect
# of the machinery (or of the library) to be classified. Meant for `vp run --with-repo -- env VERIF_REPO=$VP_RUN_REPO ./seedsweep.sh quick 2 3 4`.
set -u
cd "$(dirname "$0")"
tier=$1; shift
S=$(mktemp -d /var/tmp/seedsweep.XXXXXX); trap 'rm -rf "$S"' EXIT
for seed in "$@"; do
  for p in C02 C06 C07 C08 C09 C10 C11 C12 C19; do
    out=$(VERIF_SEED=$seed VERIF_EVIDENCE_DIR="$S/ev" VERIF_REPLAY_DIR="$S/rp" ./check $p $tier 2>&1); rc=$?
    echo "seed=$seed $p exit=$rc $(echo "$out" | tail -1)"
    [ $rc -ne 0 ] && { echo "$out" | tail -20; cp -r "$S/rp" "/var/tmp/seedsweep-replays-$seed-$p" 2>/dev/null; }
  done
done
echo SWEEP-DONE
