#!/usr/bin/env bash
# MANIFEST.setup_cmd: offline; warms the Go build cache for the simulator, the
# instrumenter and the race-enabled std packages so that every check's own
# rebuild is incremental. Builds nothing that a check relies on being present.
set -u
export GOFLAGS=-mod=mod GOPROXY=off GOSUMDB=off GOTOOLCHAIN=local
cd "$(dirname "$0")" || exit 2
T=$(mktemp -d "${TMPDIR:-/var/tmp}/verif-setup.XXXXXX") || exit 2
trap 'rm -rf "$T"' EXIT
(cd sim && go build -o "$T/simcheck" .) || exit 2
if [ -d tools/instrument ]; then (cd tools/instrument && go build -o "$T/instrument" .) || exit 2; fi
(cd sim && go build -race -o "$T/simcheck-race" .) || exit 2
echo "setup ok"
