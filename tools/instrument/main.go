// instrument rewrites a scratch copy of jub0bs/cors for schedule-controlled
// simulation (DESIGN §2.3):
//
//   - before every statement of every function and function literal of the
//     root package it inserts simrt.Yield("<file>:<line>", "<class>");
//   - X.Lock() / X.RLock() (also under defer) become
//     simrt.Acquire(X.TryLock, X.Lock) / simrt.Acquire(X.TryRLock, X.RLock),
//     and X.Unlock() / X.RUnlock() are followed by simrt.Released();
//   - the internal packages and cfgerrors are instrumented the same way (class "internal");
//   - a package simrt with nil-by-default hooks is dropped into the copy.
//
// The rewrite is purely syntactic; with the hooks nil the copy behaves like
// the original (the check runs the repository's own tests against it).
package main

import (
	"bytes"
	"fmt"
	"go/ast"
	"go/format"
	"go/parser"
	"go/token"
	"os"
	"path/filepath"
	"strconv"
	"strings"
)

const simrtSrc = `// Package simrt is dropped into an instrumented scratch copy by /verif/tools/instrument.
package simrt

import (
	"sync"
	"time"
)

// TreeStartsGoroutines: the instrumented tree contains a go statement. The simulator then
// checks, at every hook, that the caller is the task that holds the baton; a goroutine of the
// library's own runs free (unscheduled) instead of being mistaken for that task.
const TreeStartsGoroutines = __HASGO__

var (
	YieldHook    func(label, class string)
	AcquireHook  func(try func() bool, label string)
	ReleasedHook func()
)

// Yield is a schedule point.
func Yield(label, class string) {
	if h := YieldHook; h != nil {
		h(label, class)
	}
}

// Acquire takes a lock; under simulation a blocked task parks in the
// simulator's scheduler instead of in the Go runtime.
func Acquire(try func() bool, lock func(), label string) {
	if h := AcquireHook; h != nil {
		h(try, label)
		return
	}
	lock()
}

// The clock seam (instrument -clock): time.Now / time.Since / time.Until / time.Sleep of
// the library are routed here. With ClockHook nil they are the real ones.
var ClockHook func() time.Time
var SleepHook func(d time.Duration)

func Now() time.Time {
	if h := ClockHook; h != nil {
		return h()
	}
	return time.Now()
}
func Since(t time.Time) time.Duration { return Now().Sub(t) }
func Until(t time.Time) time.Duration { return t.Sub(Now()) }
func Sleep(d time.Duration) {
	if h := SleepHook; h != nil {
		h(d)
		return
	}
	time.Sleep(d)
}

// AfterFunc (instrument -clock, only in a tree whose every one-argument Reset call is made
// on an expression assigned from time.AfterFunc: any other re-arming could not be followed): with the hook set the timer belongs
// to the simulator, which runs f when simulated time has passed the deadline.
var AfterFuncHook func(d time.Duration, f func()) *time.Timer

func AfterFunc(d time.Duration, f func()) *time.Timer {
	if h := AfterFuncHook; h != nil {
		return h(d, f)
	}
	return time.AfterFunc(d, f)
}

// OnceDo: X.Do(f) on a sync.Once of the tree. sync.Once blocks its second caller inside the Go
// runtime while the first is still in f; under the simulator the first may be a task that has
// been preempted, so the second caller must park in the simulator's scheduler instead.
var OnceHook func(o *sync.Once, f func())

func OnceDo(o *sync.Once, f func()) {
	if h := OnceHook; h != nil {
		h(o, f)
		return
	}
	o.Do(f)
}

var TimerResetHook func(t *time.Timer, d time.Duration) bool

func TimerReset(t *time.Timer, d time.Duration) bool {
	if h := TimerResetHook; h != nil {
		return h(t, d)
	}
	return t.Reset(d)
}

// Released tells the simulator that a lock was released.
func Released() {
	if h := ReleasedHook; h != nil {
		h()
	}
}
`

var (
	fset    = token.NewFileSet()
	module  string
	nYields int
	nLocks  int
)

var (
	optClock   bool // route time.Now/Since/Until/Sleep through simrt
	optNoYield bool // no schedule points, no lock seams (clock seam only)
	nClock     int
	// a one-argument Reset call somewhere in the tree: a timer may be re-armed, which the
	// simulator could not follow, so time.AfterFunc stays real
	treeResetsTimers bool
	onceNames        = map[string]bool{} // struct fields / variables declared as sync.Once
	nOnce            int
	resetReceivers   = map[string]bool{}
	timerExprs       = map[string]bool{}
)

func exprText(e ast.Expr) string {
	var b bytes.Buffer
	format.Node(&b, token.NewFileSet(), e)
	return b.String()
}

func isAfterFunc(e ast.Expr) bool {
	c, ok := e.(*ast.CallExpr)
	if !ok {
		return false
	}
	sel, ok := c.Fun.(*ast.SelectorExpr)
	if !ok || sel.Sel.Name != "AfterFunc" {
		return false
	}
	id, ok := sel.X.(*ast.Ident)
	return ok && (id.Name == "time" || id.Name == "simrt")
}

func main() {
	args := os.Args[1:]
	for len(args) > 0 && strings.HasPrefix(args[0], "-") {
		switch args[0] {
		case "-clock":
			optClock = true
		case "-noyield":
			optNoYield = true
		default:
			fmt.Fprintln(os.Stderr, "unknown flag", args[0])
			os.Exit(2)
		}
		args = args[1:]
	}
	if len(args) != 1 {
		fmt.Fprintln(os.Stderr, "usage: instrument [-clock] [-noyield] <scratch copy of the repository>")
		os.Exit(2)
	}
	root := args[0]
	gm, err := os.ReadFile(filepath.Join(root, "go.mod"))
	if err != nil {
		die(err)
	}
	for _, l := range strings.Split(string(gm), "\n") {
		if strings.HasPrefix(l, "module ") {
			module = strings.TrimSpace(strings.TrimPrefix(l, "module "))
		}
	}
	if module == "" {
		die(fmt.Errorf("no module line in go.mod"))
	}
	if err := os.MkdirAll(filepath.Join(root, "simrt"), 0o755); err != nil {
		die(err)
	}
	hasGo := "false"
	filepath.Walk(root, func(path string, info os.FileInfo, err error) error {
		if err != nil || info.IsDir() || !strings.HasSuffix(path, ".go") || strings.HasSuffix(path, "_test.go") || strings.Contains(path, "/testdata/") || strings.Contains(path, "/.git/") {
			return nil
		}
		if f, err := parser.ParseFile(token.NewFileSet(), path, nil, 0); err == nil {
			ast.Inspect(f, func(x ast.Node) bool {
				if _, ok := x.(*ast.GoStmt); ok {
					hasGo = "true"
				}
				return true
			})
		}
		return nil
	})
	if err := os.WriteFile(filepath.Join(root, "simrt", "simrt.go"), []byte(strings.Replace(simrtSrc, "__HASGO__", hasGo, 1)), 0o644); err != nil {
		die(err)
	}
	walk := func(visit func(path, rel string) error) error {
		return filepath.Walk(root, func(path string, info os.FileInfo, err error) error {
			if err != nil {
				return err
			}
			if info.IsDir() {
				if info.Name() == "simrt" || info.Name() == ".git" || info.Name() == "testdata" {
					return filepath.SkipDir
				}
				return nil
			}
			if !strings.HasSuffix(path, ".go") || strings.HasSuffix(path, "_test.go") {
				return nil
			}
			rel, _ := filepath.Rel(root, path)
			return visit(path, rel)
		})
	}
	if !optNoYield { // names of struct fields and variables of type sync.Once
		walk(func(path, rel string) error {
			f, err := parser.ParseFile(token.NewFileSet(), path, nil, 0)
			if err != nil {
				return nil
			}
			isOnce := func(t ast.Expr) bool {
				sel, ok := t.(*ast.SelectorExpr)
				if !ok || sel.Sel.Name != "Once" {
					return false
				}
				id, ok := sel.X.(*ast.Ident)
				return ok && id.Name == "sync"
			}
			ast.Inspect(f, func(x ast.Node) bool {
				switch n := x.(type) {
				case *ast.Field:
					if isOnce(n.Type) {
						for _, nm := range n.Names {
							onceNames[nm.Name] = true
						}
					}
				case *ast.ValueSpec:
					if n.Type != nil && isOnce(n.Type) {
						for _, nm := range n.Names {
							onceNames[nm.Name] = true
						}
					}
				}
				return true
			})
			return nil
		})
	}
	if optClock { // does any file re-arm something with a one-argument Reset? then timers stay real
		walk(func(path, rel string) error {
			f, err := parser.ParseFile(token.NewFileSet(), path, nil, 0)
			if err != nil {
				return nil
			}
			ast.Inspect(f, func(x ast.Node) bool {
				switch n := x.(type) {
				case *ast.CallExpr:
					if sel, ok := n.Fun.(*ast.SelectorExpr); ok && sel.Sel.Name == "Reset" && len(n.Args) == 1 {
						resetReceivers[exprText(sel.X)] = true
					}
				case *ast.AssignStmt: // X = time.AfterFunc(...): X is a timer of ours
					for i, rhs := range n.Rhs {
						if isAfterFunc(rhs) && i < len(n.Lhs) {
							timerExprs[exprText(n.Lhs[i])] = true
						}
					}
				}
				return true
			})
			return nil
		})
		// a re-armed timer can be followed only if every one-argument Reset in the tree is
		// made on an expression that was assigned from time.AfterFunc
		for r := range resetReceivers {
			if !timerExprs[r] {
				treeResetsTimers = true
			}
		}
	}
	err = walk(func(path, rel string) error { return instrumentFile(path, rel, filepath.Dir(rel) == ".") })
	if err != nil {
		die(err)
	}
	fmt.Printf("instrumented: %d yields, %d lock seams, %d clock reads, %d tuple assignments split\n", nYields, nLocks, nClock, nSplit)
	if nLocks == 0 && !optNoYield {
		// e.g. a tree that synchronises with atomics only: schedule points are
		// still everywhere; the lock-related reach probes are switched off
		fmt.Println("warning: no lock operation found to route through the simulator")
	}
}

func die(err error) {
	fmt.Fprintln(os.Stderr, "instrument:", err)
	os.Exit(2)
}

func instrumentFile(path, rel string, rootPkg bool) error {
	f, err := parser.ParseFile(fset, path, nil, parser.ParseComments)
	if err != nil {
		return err
	}
	if f.Name.Name == "main" {
		return nil
	}
	before := nYields + nLocks + nClock + nOnce
	if optClock {
		rewriteClock(f)
	}
	if !optNoYield && len(onceNames) > 0 { // X.once.Do(f)  =>  simrt.OnceDo(&X.once, f)
		ast.Inspect(f, func(x ast.Node) bool {
			c, ok := x.(*ast.CallExpr)
			if !ok || len(c.Args) != 1 {
				return true
			}
			sel, ok := c.Fun.(*ast.SelectorExpr)
			if !ok || sel.Sel.Name != "Do" {
				return true
			}
			last := ""
			switch r := sel.X.(type) {
			case *ast.Ident:
				last = r.Name
			case *ast.SelectorExpr:
				last = r.Sel.Name
			}
			if !onceNames[last] {
				return true
			}
			c.Args = []ast.Expr{&ast.UnaryExpr{Op: token.AND, X: sel.X}, c.Args[0]}
			c.Fun = &ast.SelectorExpr{X: ast.NewIdent("simrt"), Sel: ast.NewIdent("OnceDo")}
			nOnce++
			return true
		})
	}
	for _, d := range f.Decls {
		fd, ok := d.(*ast.FuncDecl)
		if !ok || fd.Body == nil || optNoYield {
			continue
		}
		class := classOf(fd, rootPkg)
		// statement granularity everywhere: a changed tree may share mutable
		// structures of the internal packages (origin tree, sets) between a
		// writer and in-flight requests
		rewriteBlock(fd.Body, rel, class)
	}
	if nYields+nLocks+nClock+nOnce == before {
		return nil
	}
	addImport(f, module+"/simrt")
	var buf bytes.Buffer
	if err := format.Node(&buf, fset, f); err != nil {
		return fmt.Errorf("%s: %v", rel, err)
	}
	return os.WriteFile(path, buf.Bytes(), 0o644)
}

func classOf(fd *ast.FuncDecl, rootPkg bool) string {
	if !rootPkg {
		return "internal"
	}
	if fd.Recv != nil && len(fd.Recv.List) == 1 {
		t := fd.Recv.List[0].Type
		if s, ok := t.(*ast.StarExpr); ok {
			t = s.X
		}
		if id, ok := t.(*ast.Ident); ok {
			switch id.Name {
			case "Middleware":
				return "mw"
			case "internalConfig":
				if strings.HasPrefix(fd.Name.Name, "validate") {
					return "cfg"
				}
				return "icfg"
			}
		}
	}
	return "cfg"
}

func yieldStmt(rel string, line int, class string) ast.Stmt {
	return &ast.ExprStmt{X: &ast.CallExpr{
		Fun: &ast.SelectorExpr{X: ast.NewIdent("simrt"), Sel: ast.NewIdent("Yield")},
		Args: []ast.Expr{
			&ast.BasicLit{Kind: token.STRING, Value: strconv.Quote(fmt.Sprintf("%s:%d", rel, line))},
			&ast.BasicLit{Kind: token.STRING, Value: strconv.Quote(class)},
		},
	}}
}

// lockCall matches X.Lock() / X.RLock() / X.Unlock() / X.RUnlock() with no arguments.
func lockCall(e ast.Expr) (recv ast.Expr, name string, ok bool) {
	c, isCall := e.(*ast.CallExpr)
	if !isCall || len(c.Args) != 0 {
		return nil, "", false
	}
	sel, isSel := c.Fun.(*ast.SelectorExpr)
	if !isSel {
		return nil, "", false
	}
	switch sel.Sel.Name {
	case "Lock", "RLock", "Unlock", "RUnlock":
		return sel.X, sel.Sel.Name, true
	}
	return nil, "", false
}

func acquireCall(recv ast.Expr, name, label string) *ast.CallExpr {
	try := "TryLock"
	if name == "RLock" {
		try = "TryRLock"
	}
	return &ast.CallExpr{
		Fun: &ast.SelectorExpr{X: ast.NewIdent("simrt"), Sel: ast.NewIdent("Acquire")},
		Args: []ast.Expr{
			&ast.SelectorExpr{X: recv, Sel: ast.NewIdent(try)},
			&ast.SelectorExpr{X: recv, Sel: ast.NewIdent(name)},
			&ast.BasicLit{Kind: token.STRING, Value: strconv.Quote(label)},
		},
	}
}

func releasedStmt() ast.Stmt {
	return &ast.ExprStmt{X: &ast.CallExpr{Fun: &ast.SelectorExpr{X: ast.NewIdent("simrt"), Sel: ast.NewIdent("Released")}}}
}

// rewriteStmts returns the statement list with yields and lock seams inserted.
func rewriteStmts(list []ast.Stmt, rel, class string) []ast.Stmt {
	var out []ast.Stmt
	for _, st := range list {
		line := fset.Position(st.Pos()).Line
		label := fmt.Sprintf("%s:%d", rel, line)
		cls := class
		isLockOp := false
		switch s := st.(type) {
		case *ast.ExprStmt:
			if recv, name, ok := lockCall(s.X); ok {
				isLockOp = true
				cls = "lock"
				switch name {
				case "Lock", "RLock":
					s.X = acquireCall(recv, name, label)
					nLocks++
					out = append(out, yieldStmt(rel, line, cls), st)
				default:
					out = append(out, yieldStmt(rel, line, cls), st, releasedStmt())
				}
			}
		case *ast.DeferStmt:
			if recv, name, ok := lockCall(s.Call); ok {
				isLockOp = true
				switch name {
				case "Lock", "RLock":
					s.Call = acquireCall(recv, name, label)
					nLocks++
					out = append(out, yieldStmt(rel, line, "lock"), st)
				default:
					// defer X.Unlock()  =>  defer func() { X.Unlock(); simrt.Released() }()
					s.Call = &ast.CallExpr{Fun: &ast.FuncLit{
						Type: &ast.FuncType{Params: &ast.FieldList{}},
						Body: &ast.BlockStmt{List: []ast.Stmt{&ast.ExprStmt{X: s.Call}, releasedStmt()}},
					}}
					out = append(out, yieldStmt(rel, line, "lock"), st)
				}
			}
		}
		if isLockOp {
			nYields++
			continue
		}
		rewriteNested(st, rel, class)
		// a, b := f(), g()  =>  t1 := f(); <yield>; t2 := g(); a, b := t1, t2   (same order of
		// evaluation; a schedule point between the two reads of what is meant to be ONE snapshot)
		if as, ok := st.(*ast.AssignStmt); ok && splittable(as) {
			out = append(out, yieldStmt(rel, line, cls))
			nYields++
			var tmps []ast.Expr
			for i, rhs := range as.Rhs {
				nTmp++
				tmp := ast.NewIdent(fmt.Sprintf("simTmp%d", nTmp))
				out = append(out, &ast.AssignStmt{Lhs: []ast.Expr{tmp}, Tok: token.DEFINE, Rhs: []ast.Expr{rhs}})
				tmps = append(tmps, ast.NewIdent(tmp.Name))
				if i < len(as.Rhs)-1 {
					out = append(out, yieldStmt(rel, line, cls))
					nYields++
				}
			}
			as.Rhs = tmps
			out = append(out, st)
			nSplit++
			continue
		}
		out = append(out, yieldStmt(rel, line, cls), st)
		nYields++
	}
	return out
}

var nTmp, nSplit int

// splittable: a tuple assignment to plain identifiers whose right-hand sides contain at least
// two calls in different positions (anything else has nothing to interleave).
func splittable(as *ast.AssignStmt) bool {
	if len(as.Rhs) < 2 || len(as.Lhs) != len(as.Rhs) || (as.Tok != token.DEFINE && as.Tok != token.ASSIGN) {
		return false
	}
	for _, l := range as.Lhs {
		if _, ok := l.(*ast.Ident); !ok {
			return false
		}
	}
	calls := 0
	for _, r := range as.Rhs {
		has := false
		ast.Inspect(r, func(x ast.Node) bool {
			switch x.(type) {
			case *ast.CallExpr:
				has = true
			case *ast.FuncLit:
				return false
			}
			return true
		})
		if has {
			calls++
		}
	}
	return calls >= 2
}

func rewriteBlock(b *ast.BlockStmt, rel, class string) {
	if b == nil {
		return
	}
	b.List = rewriteStmts(b.List, rel, class)
}

// rewriteNested descends into the blocks and function literals of one statement.
func rewriteNested(st ast.Stmt, rel, class string) {
	switch s := st.(type) {
	case *ast.BlockStmt:
		rewriteBlock(s, rel, class)
	case *ast.IfStmt:
		rewriteFuncLits(s.Init, rel, class)
		rewriteFuncLits(s.Cond, rel, class)
		rewriteBlock(s.Body, rel, class)
		if s.Else != nil {
			rewriteNested(s.Else, rel, class)
		}
	case *ast.ForStmt:
		rewriteBlock(s.Body, rel, class)
	case *ast.RangeStmt:
		rewriteFuncLits(s.X, rel, class)
		rewriteBlock(s.Body, rel, class)
	case *ast.SwitchStmt:
		for _, cc := range s.Body.List {
			c := cc.(*ast.CaseClause)
			c.Body = rewriteStmts(c.Body, rel, class)
		}
	case *ast.TypeSwitchStmt:
		for _, cc := range s.Body.List {
			c := cc.(*ast.CaseClause)
			c.Body = rewriteStmts(c.Body, rel, class)
		}
	case *ast.SelectStmt:
		for _, cc := range s.Body.List {
			c := cc.(*ast.CommClause)
			c.Body = rewriteStmts(c.Body, rel, class)
		}
	case *ast.LabeledStmt:
		rewriteNested(s.Stmt, rel, class)
	default:
		rewriteFuncLits(st, rel, class)
	}
}

// rewriteFuncLits instruments function literals that occur inside expressions.
func rewriteFuncLits(n ast.Node, rel, class string) {
	if n == nil || isNilNode(n) {
		return
	}
	ast.Inspect(n, func(x ast.Node) bool {
		if fl, ok := x.(*ast.FuncLit); ok {
			rewriteBlock(fl.Body, rel, class)
			return false
		}
		return true
	})
}

func isNilNode(n ast.Node) bool {
	switch v := n.(type) {
	case ast.Stmt:
		return v == nil
	case ast.Expr:
		return v == nil
	}
	return false
}

func addImport(f *ast.File, path string) {
	for _, im := range f.Imports {
		if im.Path.Value == strconv.Quote(path) {
			return
		}
	}
	spec := &ast.ImportSpec{Path: &ast.BasicLit{Kind: token.STRING, Value: strconv.Quote(path)}}
	for _, d := range f.Decls {
		if gd, ok := d.(*ast.GenDecl); ok && gd.Tok == token.IMPORT {
			gd.Specs = append(gd.Specs, spec)
			if !gd.Lparen.IsValid() {
				gd.Lparen = gd.Pos()
			}
			f.Imports = append(f.Imports, spec)
			return
		}
	}
	gd := &ast.GenDecl{Tok: token.IMPORT, Specs: []ast.Spec{spec}}
	f.Decls = append([]ast.Decl{gd}, f.Decls...)
	f.Imports = append(f.Imports, spec)
}

// rewriteClock routes <time>.Now / Since / Until / Sleep through simrt (purely syntactic: the
// identifier must be the file's name for the imported package "time" and must not resolve to
// a local object). A blank use keeps the import alive if nothing else of it is left.
func rewriteClock(f *ast.File) {
	name := ""
	for _, im := range f.Imports {
		if im.Path.Value == `"time"` {
			name = "time"
			if im.Name != nil {
				name = im.Name.Name
			}
		}
	}
	if name == "" || name == "." || name == "_" {
		return
	}
	n := 0
	if !treeResetsTimers { // X.Reset(d) on a timer of ours  =>  simrt.TimerReset(X, d)
		ast.Inspect(f, func(x ast.Node) bool {
			c, ok := x.(*ast.CallExpr)
			if !ok || len(c.Args) != 1 {
				return true
			}
			sel, ok := c.Fun.(*ast.SelectorExpr)
			if !ok || sel.Sel.Name != "Reset" || !timerExprs[exprText(sel.X)] {
				return true
			}
			c.Args = []ast.Expr{sel.X, c.Args[0]}
			c.Fun = &ast.SelectorExpr{X: ast.NewIdent("simrt"), Sel: ast.NewIdent("TimerReset")}
			n++
			return true
		})
	}
	ast.Inspect(f, func(x ast.Node) bool {
		sel, ok := x.(*ast.SelectorExpr)
		if !ok {
			return true
		}
		id, ok := sel.X.(*ast.Ident)
		if !ok || id.Name != name || id.Obj != nil {
			return true
		}
		switch sel.Sel.Name {
		case "Now", "Since", "Until", "Sleep":
			sel.X = ast.NewIdent("simrt")
			n++
		case "AfterFunc":
			if !treeResetsTimers {
				sel.X = ast.NewIdent("simrt")
				n++
			}
		}
		return true
	})
	if n == 0 {
		return
	}
	nClock += n
	f.Decls = append(f.Decls, &ast.GenDecl{Tok: token.VAR, Specs: []ast.Spec{&ast.ValueSpec{
		Names:  []*ast.Ident{ast.NewIdent("_")},
		Values: []ast.Expr{&ast.SelectorExpr{X: ast.NewIdent(name), Sel: ast.NewIdent("Nanosecond")}},
	}}})
}
