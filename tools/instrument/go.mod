module verif/instrument

go 1.23.0
