package main

// models_test.go — the trusted models are themselves tested against a
// hand-transcribed table before they are believed (DESIGN §8): worked examples
// from the Fetch standard / MDN / the Config documentation, with the expected
// verdict written down by hand. Every row is run as a full protocol against
// the real middleware AND through the permits() predicate; both must give the
// hand-written verdict. Run by ./selftest.sh.

import (
	"testing"
)

func TestBrowserModelPieces(t *testing.T) {
	// normalisation (Fetch: DELETE, GET, HEAD, OPTIONS, POST, PUT only)
	for in, want := range map[string]string{"get": "GET", "Put": "PUT", "delete": "DELETE", "options": "OPTIONS", "patch": "patch", "PATCH": "PATCH", "Purge": "Purge"} {
		if got := normalizeMethod(in); got != want {
			t.Errorf("normalizeMethod(%q) = %q, want %q", in, got, want)
		}
	}
	// extract header list values
	fp := fpOf([]HV{{hACAH, []string{"a, b ,c", "d"}}, {hACAM, []string{"PUT,,DELETE"}}, {"X-Bad", []string{"a b"}}})
	if vs, ok, fail := extractList(fp, hACAH); !ok || fail || len(vs) != 4 || vs[3] != "d" {
		t.Errorf("extractList ACAH = %v %v %v", vs, ok, fail)
	}
	if vs, _, fail := extractList(fp, hACAM); fail || len(vs) != 2 {
		t.Errorf("extractList with empty element = %v %v", vs, fail)
	}
	if _, _, fail := extractList(fp, "X-Bad"); !fail {
		t.Errorf("extractList must fail on a non-token element")
	}
	if _, ok, _ := extractList(fp, "Absent"); ok {
		t.Errorf("absent header reported present")
	}
	// CORS check
	in := Intent{Origin: "https://example.com"}
	for _, c := range []struct {
		h     []HV
		creds bool
		want  bool
	}{
		{[]HV{{hACAO, []string{"*"}}}, false, true},
		{[]HV{{hACAO, []string{"*"}}}, true, false}, // wildcard with credentials
		{[]HV{{hACAO, []string{"https://example.com"}}}, false, true},
		{[]HV{{hACAO, []string{"https://example.com"}}}, true, false}, // no ACAC
		{[]HV{{hACAO, []string{"https://example.com"}}, {hACAC, []string{"true"}}}, true, true},
		{[]HV{{hACAO, []string{"https://example.com"}}, {hACAC, []string{"True"}}}, true, false}, // case-sensitive
		{[]HV{{hACAO, []string{"https://example.com", "https://example.com"}}}, false, false},    // two values combine to "a, a"
		{[]HV{{hACAO, []string{"https://EXAMPLE.com"}}}, false, false},
		{nil, false, false},
	} {
		i := in
		i.Creds = c.creds
		if got, why := corsCheck(i, fpOf(c.h)); got != c.want {
			t.Errorf("corsCheck(%v creds=%v) = %v (%s), want %v", c.h, c.creds, got, why, c.want)
		}
	}
	// pattern denotation (Config documentation examples)
	for _, c := range []struct {
		p, o string
		want bool
	}{
		{"https://*.example.com", "https://foo.example.com", true},
		{"https://*.example.com", "https://bar.foo.example.com", true},
		{"https://*.example.com", "https://example.com", false},
		{"https://*.example.com", "https://fooexample.com", false},
		{"http://localhost:*", "http://localhost", true},
		{"http://localhost:*", "http://localhost:8080", true},
		{"https://*.example.com:*", "https://bar.foo.example.com:9090", true},
		{"https://example.com", "https://example.com:8080", false},
		{"https://example.com:8080", "https://example.com", false},
		{"https://example.com", "http://example.com", false},
		{"http://[::1]:9090", "http://[::1]:9090", true},
		{"*", "connector://anything", true},
	} {
		if got := denotes(c.p, c.o); got != c.want {
			t.Errorf("denotes(%q, %q) = %v, want %v", c.p, c.o, got, c.want)
		}
	}
}

func TestProtocolTable(t *testing.T) {
	ex := "https://example.com"
	rows := []struct {
		name string
		cfg  Cfg
		in   Intent
		want bool
	}{
		{"simple GET from allowed origin", Cfg{Origins: []string{ex}}, Intent{Origin: ex, Method: "GET"}, true},
		{"simple GET from other origin", Cfg{Origins: []string{ex}}, Intent{Origin: "https://evil.test", Method: "GET"}, false},
		{"allow-all, anonymous", Cfg{Origins: []string{"*"}}, Intent{Origin: "https://evil.test", Method: "POST"}, true},
		{"credentials but not Credentialed", Cfg{Origins: []string{ex}}, Intent{Origin: ex, Method: "GET", Creds: true}, false},
		{"credentials and Credentialed", Cfg{Origins: []string{ex}, Credentialed: true}, Intent{Origin: ex, Method: "GET", Creds: true}, true},
		{"PUT not listed", Cfg{Origins: []string{ex}}, Intent{Origin: ex, Method: "PUT"}, false},
		{"PUT listed", Cfg{Origins: []string{ex}, Methods: []string{"PUT"}}, Intent{Origin: ex, Method: "PUT"}, true},
		{"put listed, page writes put (browser sends PUT)", Cfg{Origins: []string{ex}, Methods: []string{"put"}}, Intent{Origin: ex, Method: "put"}, true},
		{"PATCH listed, page writes patch (not normalised)", Cfg{Origins: []string{ex}, Methods: []string{"PATCH"}}, Intent{Origin: ex, Method: "patch"}, false},
		{"patch listed, page writes patch", Cfg{Origins: []string{ex}, Methods: []string{"patch"}}, Intent{Origin: ex, Method: "patch"}, true},
		{"* methods anonymous", Cfg{Origins: []string{ex}, Methods: []string{"*"}}, Intent{Origin: ex, Method: "PURGE"}, true},
		{"* methods with credentials (echo)", Cfg{Origins: []string{ex}, Credentialed: true, Methods: []string{"*"}}, Intent{Origin: ex, Method: "PURGE", Creds: true}, true},
		{"header listed (case-insensitive)", Cfg{Origins: []string{ex}, RequestHeaders: []string{"Content-Type"}}, Intent{Origin: ex, Method: "POST", Headers: []string{"content-type"}}, true},
		{"header not listed", Cfg{Origins: []string{ex}, RequestHeaders: []string{"Content-Type"}}, Intent{Origin: ex, Method: "POST", Headers: []string{"x-foo"}}, false},
		{"* headers anonymous covers x-foo", Cfg{Origins: []string{ex}, RequestHeaders: []string{"*"}}, Intent{Origin: ex, Method: "GET", Headers: []string{"x-foo"}}, true},
		{"* headers anonymous does not cover authorization", Cfg{Origins: []string{ex}, RequestHeaders: []string{"*"}}, Intent{Origin: ex, Method: "GET", Headers: []string{"authorization"}}, false},
		{"*,Authorization anonymous", Cfg{Origins: []string{ex}, RequestHeaders: []string{"*", "Authorization"}}, Intent{Origin: ex, Method: "GET", Headers: []string{"authorization", "x-foo"}}, true},
		{"* headers credentialed covers authorization", Cfg{Origins: []string{ex}, Credentialed: true, RequestHeaders: []string{"*"}}, Intent{Origin: ex, Method: "GET", Headers: []string{"authorization"}, Creds: true}, true},
		{"PNA enabled", Cfg{Origins: []string{ex}, PNA: true}, Intent{Origin: ex, Method: "GET", PNA: true}, true},
		{"PNA not enabled", Cfg{Origins: []string{ex}}, Intent{Origin: ex, Method: "GET", PNA: true}, false},
		{"no-cors-only PNA never permits cors-mode", Cfg{Origins: []string{ex}, PNANoCors: true}, Intent{Origin: ex, Method: "GET"}, false},
		{"subdomain wildcard", Cfg{Origins: []string{"https://*.example.com"}}, Intent{Origin: "https://a.b.example.com", Method: "DELETE"}, false},
		{"subdomain wildcard + method", Cfg{Origins: []string{"https://*.example.com"}, Methods: []string{"DELETE"}}, Intent{Origin: "https://a.b.example.com", Method: "delete"}, true},
		{"OPTIONS as the actual method", Cfg{Origins: []string{ex}, Methods: []string{"OPTIONS"}}, Intent{Origin: ex, Method: "OPTIONS"}, true},
		{"custom status 200", Cfg{Origins: []string{ex}, Methods: []string{"PUT"}, Status: 200}, Intent{Origin: ex, Method: "PUT"}, true},
	}
	for _, row := range rows {
		if got, why := permits(row.cfg, row.in); got != row.want {
			t.Errorf("%s: permits = %v (%s), hand-written verdict %v", row.name, got, why, row.want)
		}
		for _, debug := range []bool{false, true} {
			m, err, _ := newMW(row.cfg)
			if err != nil {
				t.Fatalf("%s: configuration rejected: %v", row.name, err)
			}
			m.SetDebug(debug)
			var trace []string
			v := browserFetch(newServer(m.Wrap), row.in, nil, newCtx(false), &trace)
			if v.OK != row.want {
				t.Errorf("%s (debug=%v): browser verdict %v (%s %s), hand-written verdict %v; trace %v", row.name, debug, v.OK, v.Stage, v.Why, row.want, trace)
			}
		}
	}
}

func TestCacheModelPieces(t *testing.T) {
	names, star := varyNames(fpOf([]HV{{hVary, []string{"Accept-Encoding, origin", " X-Foo "}}}))
	if star || len(names) != 3 || names[1] != "origin" || names[2] != "x-foo" {
		t.Errorf("varyNames = %v %v", names, star)
	}
	if _, star := varyNames(fpOf([]HV{{hVary, []string{"*"}}})); !star {
		t.Errorf("Vary: * not recognised")
	}
	a := Req{Method: "GET", H: []HV{{hOrigin, []string{"https://a"}}, {"X-Foo", []string{"1"}}}}
	b := Req{Method: "GET", H: []HV{{hOrigin, []string{"https://a"}}, {"X-Foo", []string{"2"}}}}
	if !agree(a, b, []string{"origin"}) || agree(a, b, []string{"origin", "x-foo"}) {
		t.Errorf("agree() wrong")
	}
}

func TestFlattenReference(t *testing.T) {
	b := &errBuilder{leaves: map[int]error{}}
	e := b.build(TNode{Kids: []TNode{{Kids: []TNode{{Leaf: 1}}}, {Leaf: 2}, {Kids: []TNode{{Leaf: 3}, {Kids: []TNode{{Leaf: 4}}}}}}})
	got := flatten(e)
	if len(got) != 4 || got[0] != b.leaves[1] || got[3] != b.leaves[4] {
		t.Errorf("flatten = %v", got)
	}
}

// TestPreflightCacheModel: the CORS-preflight cache of the caching browser
// against a hand-written table (Fetch, "CORS-preflight cache": cache entry
// match, method / header-name cache entry match, max-age).
func TestPreflightCacheModel(t *testing.T) {
	anon := Intent{Origin: "https://a.example", Method: "PUT"}
	cred := Intent{Origin: "https://a.example", Method: "PUT", Creds: true}
	otherOrigin := Intent{Origin: "https://b.example", Method: "PUT"}
	pc := &preflightCache{cap: 7200}
	pc.store(anon, "u", []string{"PUT", "*"}, []string{"x-foo", "*"}, 10) // stored without credentials at t=0
	type tc struct {
		name   string
		in     Intent
		url    string
		now    int
		method string
		header string
		want   bool
	}
	for _, c := range []tc{
		{"listed method", anon, "u", 0, "PUT", "", true},
		{"wildcard method entry covers another method without credentials", anon, "u", 9, "DELETE", "", true},
		{"expired exactly at max-age", anon, "u", 10, "PUT", "", false},
		{"other URL", anon, "v", 0, "PUT", "", false},
		{"other origin", otherOrigin, "u", 0, "PUT", "", false},
		{"entry stored without credentials does not serve a credentialed request", cred, "u", 0, "PUT", "", false},
		{"listed header, case-insensitive", anon, "u", 0, "", "X-Foo", true},
		{"wildcard header entry covers an unlisted name", anon, "u", 0, "", "x-bar", true},
		{"wildcard header entry never covers authorization", anon, "u", 0, "", "authorization", false},
	} {
		pc.now = c.now
		var got bool
		if c.method != "" {
			got = pc.methodMatch(c.in, c.url, c.method)
		} else {
			got = pc.headerMatch(c.in, c.url, c.header)
		}
		if got != c.want {
			t.Errorf("%s: got %v, want %v", c.name, got, c.want)
		}
	}
	// an entry stored WITH credentials serves credentialed and anonymous requests; its `*` is a literal
	pc2 := &preflightCache{cap: 600}
	pc2.store(cred, "u", []string{"PUT", "*"}, []string{"*"}, 100000) // capped to 600
	pc2.now = 599
	if !pc2.methodMatch(cred, "u", "PUT") || !pc2.methodMatch(anon, "u", "PUT") {
		t.Errorf("credentialed entry must match both credentials modes")
	}
	if pc2.methodMatch(cred, "u", "DELETE") || pc2.headerMatch(cred, "u", "x-foo") {
		t.Errorf("`*` stored with credentials is not a wildcard")
	}
	pc2.now = 600
	if pc2.methodMatch(cred, "u", "PUT") {
		t.Errorf("max-age must be capped by the user agent's limit")
	}
}
