//go:build simclock

package main

// clock_on.go — the clock seam (fault F13). Built only when the tree under test
// imports "time": ./check then builds against a scratch copy in which
// tools/instrument -clock has routed time.Now / Since / Until / Sleep through
// simrt, and the simulator owns the clock. Between the steps of a run
// (clockTick: before every request and every operator call) simulated time
// jumps forward by an amount drawn from a stream that is a pure function of the
// plan. None of the claimed properties lets the answer depend on the time of
// day, so every oracle stays as it is; what changes is that minutes, hours and
// years pass between two steps of a run that takes microseconds.

import (
	"math/rand/v2"
	"time"

	"github.com/jub0bs/cors/simrt"
)

const clockBuild = true

var (
	vnow     = time.Date(2026, 1, 1, 0, 0, 0, 0, time.UTC) // never goes back within a process
	clockRng *rand.Rand
	clockCtx *Ctx
	clockOff bool
)

var clockSteps = []time.Duration{time.Millisecond, 40 * time.Millisecond, 300 * time.Millisecond, 1100 * time.Millisecond, 2500 * time.Millisecond,
	11 * time.Second, 61 * time.Second, 6 * time.Minute, 61 * time.Minute, 25 * time.Hour, 8 * 24 * time.Hour, 32 * 24 * time.Hour, 366 * 24 * time.Hour}

// timers the library armed with time.AfterFunc: the simulator runs their function when
// simulated time has passed the deadline, on the goroutine that moved the clock (the
// interleaving "the timer's goroutine ran to completion between two steps").
type simTimer struct {
	at time.Time
	f  func()
	t  *time.Timer // what the library holds: a real timer that never fires by itself; Stop() on it is honoured
}

var simTimers []*simTimer
var timerFns = map[*time.Timer]func(){}

func advance(d time.Duration) {
	vnow = vnow.Add(d)
	for fired := true; fired; {
		fired = false
		for i, st := range simTimers {
			if !st.at.After(vnow) {
				simTimers = append(simTimers[:i], simTimers[i+1:]...)
				if st.t.Stop() { // (false: the library stopped it meanwhile)
					if clockCtx != nil {
						clockCtx.hit("F13_library_timer_fired")
						clockCtx.logf("a timer of the library fires")
					}
					st.f()
				}
				fired = true
				break
			}
		}
	}
}

func init() {
	simrt.ClockHook = func() time.Time { return vnow }
	simrt.SleepHook = func(d time.Duration) {
		if d > 0 {
			advance(d)
		}
	}
	simrt.AfterFuncHook = func(d time.Duration, f func()) *time.Timer {
		t := time.AfterFunc(1000000*time.Hour, func() {})
		if len(simTimers) < 4096 {
			simTimers = append(simTimers, &simTimer{at: vnow.Add(d), f: f, t: t})
			if len(timerFns) < 4096 {
				timerFns[t] = f
			}
		}
		return t
	}
	simrt.TimerResetHook = func(t *time.Timer, d time.Duration) bool {
		f, ours := timerFns[t]
		if !ours {
			return t.Reset(d)
		}
		for i, st := range simTimers {
			if st.t == t {
				simTimers = append(simTimers[:i], simTimers[i+1:]...)
				break
			}
		}
		active := t.Reset(1000000 * time.Hour)
		simTimers = append(simTimers, &simTimer{at: vnow.Add(d), f: f, t: t})
		return active
	}
}

func clockInit(seed uint64, c *Ctx) {
	clockRng = rand.New(rand.NewPCG(seed, 0x434c4f434b))
	clockCtx = c
	clockOff = clockRng.IntN(100) < 30 // a third of the runs: no time passes at all (the world of the plain build)
}

func clockTick(where string) {
	if clockRng == nil || clockOff || clockRng.IntN(100) >= 35 {
		return
	}
	d := clockSteps[clockRng.IntN(len(clockSteps))]
	d += time.Duration(clockRng.Int64N(int64(d)/4 + 1))
	if clockCtx != nil {
		clockCtx.hit("F13_clock_jumped_forward")
		clockCtx.logf("clock +%v before %s", d, where)
	}
	advance(d)
}
