package main

// req.go: the two I/O seams of the middleware — the *http.Request it is
// given and the http.ResponseWriter / wrapped http.Handler it calls — as
// simulator-owned parties, plus canonical fingerprints of responses.

import (
	"context"
	"crypto/tls"
	"fmt"
	"io"
	"net/http"
	"net/url"
	"sort"
	"strconv"
	"strings"
)

// HV is one header name with its field-line values, in order.
type HV struct {
	K string   `json:"k"`
	V []string `json:"v"`
}

// Req is a request as plain data. Header names are canonical MIME keys, as
// net/http's server delivers them.
type Req struct {
	Method string `json:"m"`
	H      []HV   `json:"h,omitempty"`
	Host   string `json:"host,omitempty"` // r.Host / URL host; default server.test
	// Shape selects what else the *http.Request carries (0: a plain HTTP/1.1
	// request for /resource): protocol version, TLS state, remote address, path and
	// query, the OPTIONS * form, a body, an already cancelled context. No CORS
	// decision may depend on any of it.
	Shape int `json:"shape,omitempty"`
}

const nShapes = 10

func (q Req) String() string {
	var sb strings.Builder
	sb.WriteString(q.Method)
	if q.Host != "" {
		sb.WriteString(" host=" + q.Host)
	}
	if q.Shape != 0 {
		fmt.Fprintf(&sb, " shape=%d", q.Shape)
	}
	for _, h := range q.H {
		fmt.Fprintf(&sb, " %s=%q", h.K, h.V)
	}
	return sb.String()
}

func (q Req) get(k string) ([]string, bool) {
	for _, h := range q.H {
		if h.K == k {
			return h.V, true
		}
	}
	return nil, false
}

func (q Req) with(k string, v ...string) Req {
	out := Req{Method: q.Method, Host: q.Host, Shape: q.Shape}
	done := false
	for _, h := range q.H {
		if h.K == k {
			out.H = append(out.H, HV{k, append([]string{}, v...)})
			done = true
		} else {
			out.H = append(out.H, HV{h.K, append([]string{}, h.V...)})
		}
	}
	if !done {
		out.H = append(out.H, HV{k, append([]string{}, v...)})
	}
	return out
}

func (q Req) without(k string) Req {
	out := Req{Method: q.Method, Host: q.Host, Shape: q.Shape}
	for _, h := range q.H {
		if h.K != k {
			out.H = append(out.H, HV{h.K, append([]string{}, h.V...)})
		}
	}
	return out
}

var theURL = &url.URL{Scheme: "https", Host: "server.test", Path: "/resource"}

// build makes a fresh *http.Request sharing no memory with q.
func (q Req) build() *http.Request {
	h := make(http.Header, len(q.H))
	for _, hv := range q.H {
		vs := make([]string, len(hv.V))
		for i, v := range hv.V {
			vs[i] = strings.Clone(v)
		}
		h[hv.K] = vs
	}
	var r *http.Request
	if q.Host != "" {
		r = &http.Request{Method: q.Method, URL: &url.URL{Scheme: "https", Host: q.Host, Path: "/resource"}, Proto: "HTTP/2.0", ProtoMajor: 2, Header: h, Host: q.Host}
	} else {
		r = &http.Request{Method: q.Method, URL: theURL, Proto: "HTTP/1.1", ProtoMajor: 1, ProtoMinor: 1, Header: h, Host: "server.test"}
	}
	if q.Shape != 0 {
		q.shape(r)
	}
	return r
}

var cancelledCtx = func() context.Context {
	ctx, cancel := context.WithCancel(context.Background())
	cancel()
	return ctx
}()

type ctxKey struct{}

// shape dresses r the way other deployments of net/http deliver requests.
func (q Req) shape(r *http.Request) {
	u := *r.URL
	r.URL = &u
	sh := q.Shape % nShapes
	if sh < 0 {
		sh = -sh
	}
	switch sh {
	case 1: // an HTTP/1.0 client
		r.Proto, r.ProtoMajor, r.ProtoMinor, r.Close = "HTTP/1.0", 1, 0, true
		r.RemoteAddr = "198.51.100.9:40000"
	case 2: // HTTP/2 over TLS
		r.Proto, r.ProtoMajor, r.ProtoMinor = "HTTP/2.0", 2, 0
		r.TLS = &tls.ConnectionState{Version: tls.VersionTLS13, HandshakeComplete: true, ServerName: r.Host}
		r.RemoteAddr = "203.0.113.7:54321"
	case 3: // a path and a query that talk about origins
		u.Path, u.RawQuery = "/api/v1/items", "origin=https%3A%2F%2Fevil.test&x=1"
		r.RequestURI = "/api/v1/items?" + u.RawQuery
	case 4: // the asterisk form (OPTIONS *)
		u.Path, u.Scheme, u.Host = "*", "", ""
		r.RequestURI = "*"
	case 5: // a body
		r.Body, r.ContentLength = io.NopCloser(strings.NewReader("{\"a\":1}")), 7
		r.GetBody = func() (io.ReadCloser, error) { return io.NopCloser(strings.NewReader("{\"a\":1}")), nil }
	case 6: // the client has gone away already: the request's context is cancelled
		*r = *r.WithContext(cancelledCtx)
	case 7: // behind a mux: pattern set, form parsed, a context value, IPv6 peer
		r.Pattern = "/resource"
		r.Form, r.PostForm = url.Values{"origin": {"https://evil.test"}}, url.Values{}
		r.RemoteAddr = "[::1]:80"
		*r = *r.WithContext(context.WithValue(context.Background(), ctxKey{}, "v"))
	case 9: // (the request itself is plain; the WRITER of this exchange belongs to an outer layer that appends to the header lists: serveWith)
	case 8: // chunked upload over HTTP/1.1 with a trailer announced
		r.TransferEncoding, r.ContentLength = []string{"chunked"}, -1
		r.Body = io.NopCloser(strings.NewReader("data"))
		r.Trailer = http.Header{"X-Checksum": nil}
	}
}

// urlKey: what a cache uses as the primary key next to the method.
func (q Req) urlKey() string {
	sh := q.Shape % nShapes
	switch sh {
	case 3:
		return q.Host + "/api/v1/items?q"
	case 4:
		return "*"
	}
	return q.Host + "/resource"
}

const (
	hOrigin = "Origin"
	hACRM   = "Access-Control-Request-Method"
	hACRH   = "Access-Control-Request-Headers"
	hACRPN  = "Access-Control-Request-Private-Network"
	hVary   = "Vary"
	hACAO   = "Access-Control-Allow-Origin"
	hACAC   = "Access-Control-Allow-Credentials"
	hACAM   = "Access-Control-Allow-Methods"
	hACAH   = "Access-Control-Allow-Headers"
	hACMA   = "Access-Control-Max-Age"
	hACEH   = "Access-Control-Expose-Headers"
	hACAPN  = "Access-Control-Allow-Private-Network"
)

// ---- recording ResponseWriter

type wcall struct {
	Kind   string // header | writeheader | write
	Status int
	N      int
}

type recWriter struct {
	h        http.Header
	status   int // first WriteHeader (or 200 on first Write); 0 = none
	body     []byte
	calls    []wcall
	onHeader func()      // seam hooks (concsim)
	onWH     func(int)   // called before recording
	snapWH   http.Header // deep copy of the header map at first WriteHeader (only if keepSnap)
	snapFP   string      // fingerprint of the header map at first WriteHeader
	snapped  bool
	keepSnap bool
	// outerAppends: an outer layer (a compressing writer, say) appends a value to
	// every header list present when the response head is written - after the
	// harness has taken its snapshot, so the recorded response is the same with
	// and without it. http.Header.Add on a list the middleware installed is what
	// every such layer does; it is harmless unless the installed slice has spare
	// capacity shared with somebody else.
	outerAppends bool
}

func newRec(preset []HV) *recWriter {
	w := &recWriter{h: http.Header{}}
	for _, hv := range preset {
		w.h[hv.K] = append([]string{}, hv.V...)
	}
	return w
}

func (w *recWriter) Header() http.Header {
	w.calls = append(w.calls, wcall{Kind: "header"})
	if w.onHeader != nil {
		w.onHeader()
	}
	return w.h
}
func (w *recWriter) WriteHeader(s int) {
	if w.onWH != nil {
		w.onWH(s)
	}
	w.calls = append(w.calls, wcall{Kind: "writeheader", Status: s})
	if w.status == 0 {
		w.status = s
		w.snap()
		if w.outerAppends {
			for k := range w.h {
				w.h.Add(k, "appended-by-outer-layer")
			}
		}
	}
}
func (w *recWriter) Write(b []byte) (int, error) {
	w.calls = append(w.calls, wcall{Kind: "write", N: len(b)})
	if w.status == 0 {
		w.status = 200
		w.snap()
	}
	w.body = append(w.body, b...)
	return len(b), nil
}

// extraWH counts WriteHeader calls beyond the first.
func (w *recWriter) extraWH() int {
	n := 0
	for _, c := range w.calls {
		if c.Kind == "writeheader" {
			n++
		}
	}
	return max(0, n-1)
}

func (w *recWriter) snap() {
	w.snapped = true
	w.snapFP = headerFP(w.h)
	if w.keepSnap {
		w.snapWH = cloneHeader(w.h)
	}
}

func cloneHeader(h http.Header) http.Header {
	out := make(http.Header, len(h))
	for k, v := range h {
		vs := make([]string, len(v))
		for i := range v {
			vs[i] = strings.Clone(v[i])
		}
		out[k] = vs
	}
	return out
}

// headerFP renders a header map canonically (sorted keys; value order kept)
// in the format K=["v1" "v2"];...
func headerFP(h http.Header) string {
	keys := make([]string, 0, len(h))
	for k := range h {
		keys = append(keys, k)
	}
	sort.Strings(keys)
	buf := make([]byte, 0, 256)
	for _, k := range keys {
		buf = appendFP(buf, k, h[k])
	}
	return string(buf)
}

func appendFP(buf []byte, k string, vs []string) []byte {
	buf = append(buf, k...)
	buf = append(buf, '=', '[')
	for i, v := range vs {
		if i > 0 {
			buf = append(buf, ' ')
		}
		buf = appendQ(buf, v)
	}
	return append(buf, ']', ';')
}

// parseFP parses a header fingerprint produced by headerFP back into data.
func parseFP(fp string) []HV {
	var out []HV
	for len(fp) > 0 {
		i := strings.IndexByte(fp, '=')
		if i < 0 || i+1 >= len(fp) || fp[i+1] != '[' {
			panic("parseFP: malformed fingerprint " + fp)
		}
		hv := HV{K: fp[:i]}
		fp = fp[i+2:]
		for fp[0] != ']' {
			if fp[0] == ' ' {
				fp = fp[1:]
				continue
			}
			q, err := strconv.QuotedPrefix(fp)
			if err != nil {
				panic("parseFP: " + err.Error())
			}
			v, _ := strconv.Unquote(q)
			hv.V = append(hv.V, v)
			fp = fp[len(q):]
		}
		fp = fp[2:] // "];"
		out = append(out, hv)
	}
	return out
}

// appendQ is strconv.AppendQuote with a fast path for plain printable ASCII.
func appendQ(buf []byte, v string) []byte {
	for i := 0; i < len(v); i++ {
		if c := v[i]; c < 0x20 || c > 0x7e || c == '"' || c == '\\' {
			return strconv.AppendQuote(buf, v)
		}
	}
	buf = append(buf, '"')
	buf = append(buf, v...)
	return append(buf, '"')
}

func fpOf(hvs []HV) string {
	var buf []byte
	for _, hv := range hvs {
		buf = appendFP(buf, hv.K, hv.V)
	}
	return string(buf)
}

// fpFilter keeps the entries for which keep(name) is true.
func fpFilter(fp string, keep func(k string) bool) string {
	var out []HV
	for _, hv := range parseFP(fp) {
		if keep(hv.K) {
			out = append(out, hv)
		}
	}
	return fpOf(out)
}

func fpGet(fp, k string) ([]string, bool) {
	for _, hv := range parseFP(fp) {
		if hv.K == k {
			return hv.V, true
		}
	}
	return nil, false
}

func isACName(k string) bool { return strings.HasPrefix(k, "Access-Control-") }

// hasACHeader reports whether the fingerprint has any Access-Control-* header NAME.
func hasACHeader(fp string) bool {
	for _, hv := range parseFP(fp) {
		if isACName(hv.K) {
			return true
		}
	}
	return false
}

// Resp is the canonical observable outcome of one request.
type Resp struct {
	Status  int    // as sent to the client (0 = handler wrote nothing)
	Headers string // header map as the client receives it (at first WriteHeader/Write, or at return)
	Body    string
	Handler int    // invocations of the wrapped handler
	Panic   string // non-empty if the call panicked
	WH      int    // WriteHeader calls beyond the first (http.ResponseWriter allows one; which status a second call leaves depends on the writer)
	W       string // non-empty if the wrapped handler was NOT handed the writer the server passed in (its dynamic type then)
}

func (r Resp) String() string {
	s := fmt.Sprintf("%d %s body=%q handler=%d", r.Status, r.Headers, r.Body, r.Handler)
	if r.Panic != "" {
		s += " PANIC=" + r.Panic
	}
	if r.WH > 0 {
		s += fmt.Sprintf(" superfluous-WriteHeader-calls=%d", r.WH)
	}
	if r.W != "" {
		s += " " + r.W
	}
	return s
}

// harnessWriter marks the writers the harness passes in. A wrapped handler
// that receives anything else has been handed a replacement: another identity,
// other optional interfaces (http.Flusher, http.Hijacker, io.ReaderFrom ...).
type harnessWriter interface{ isHarnessWriter() }

func (*recWriter) isHarnessWriter() {}

// lastWriterNote: set by the constant handlers, read by serveWith right after
// the (synchronous, single-goroutine) call returns.
var lastWriterNote string

func noteWriter(w http.ResponseWriter) {
	if _, ok := w.(harnessWriter); !ok {
		lastWriterNote = fmt.Sprintf("handler-got-a-replacement-writer(%T)", w)
	}
}

// constHandler is the constant wrapped handler used by differential checks.
type constHandler struct {
	n     *int
	quiet *bool // the handler sets a header of its own and returns without writing: net/http serialises the head only after the whole chain has returned
}

func (h constHandler) ServeHTTP(w http.ResponseWriter, _ *http.Request) {
	*h.n++
	noteWriter(w)
	if h.quiet != nil && *h.quiet {
		w.Header().Add("Vary", "Accept-Encoding")
		w.Header().Set("X-Handler", "quiet")
		return
	}
	w.WriteHeader(200)
	w.Write([]byte("ok"))
}

// serve sends q through wrapped handler hh (already wrapped), returns the response.
func serveWith(hh http.Handler, q Req, preset []HV, invoked *int) (resp Resp) {
	return serveDerived(hh, q, preset, invoked, nil)
}

// serveDerived: as serveWith; derive (if not nil) turns the built request into the one that
// is actually sent (a sub-request that inherits the context of a request in flight, say).
func serveDerived(hh http.Handler, q Req, preset []HV, invoked *int, derive func(*http.Request) *http.Request) (resp Resp) {
	w := newRec(preset)
	defer func() {
		if p := recover(); p != nil {
			resp = Resp{Panic: fmt.Sprint(p)}
		}
	}()
	*invoked = 0
	w.outerAppends = q.Shape%nShapes == 9
	lastWriterNote = ""
	betweenSteps("a request")
	r := q.build()
	if derive != nil {
		r = derive(r)
	}
	hh.ServeHTTP(w, r)
	fp := w.snapFP
	if !w.snapped {
		fp = headerFP(w.h)
	}
	return Resp{Status: w.status, Headers: fp, Body: string(w.body), Handler: *invoked, WH: w.extraWH(), W: lastWriterNote}
}

// mwServer bundles a middleware-wrapped constant handler.
type mwServer struct {
	h       http.Handler
	invoked int
	quiet   bool
	preset  []HV // response headers an outer layer has set before the chain runs (do)
}

// doLazy serves q with a handler that writes nothing and returns the live
// writer: its header map is what the server will serialise LATER, when the
// chain has returned - possibly after other requests have been served.
func (s *mwServer) doLazy(q Req) (w *recWriter, pan string) {
	w = newRec(nil)
	s.quiet = true
	defer func() {
		s.quiet = false
		if p := recover(); p != nil {
			pan = fmt.Sprint(p)
		}
	}()
	s.h.ServeHTTP(w, q.build())
	return w, ""
}

func newServer(wrap func(http.Handler) http.Handler) *mwServer {
	s := &mwServer{}
	s.h = wrap(constHandler{&s.invoked, &s.quiet})
	return s
}
func (s *mwServer) do(q Req) Resp               { return serveWith(s.h, q, s.preset, &s.invoked) }
func (s *mwServer) doPreset(q Req, p []HV) Resp { return serveWith(s.h, q, p, &s.invoked) }

// ---- bystander request headers

// noiseVocab: request headers that real clients, proxies and frameworks attach
// and that, by the documentation, take no part in any CORS decision: Fetch
// metadata, content negotiation, credentials, forwarding, method override.
var noiseVocab = []HV{
	{"Sec-Fetch-Site", []string{"same-origin", "cross-site", "same-site", "none"}},
	{"Sec-Fetch-Mode", []string{"cors", "no-cors", "navigate", "same-origin", "websocket"}},
	{"Sec-Fetch-Dest", []string{"empty", "document", "script"}},
	{"Sec-Fetch-User", []string{"?1"}},
	{"Sec-Purpose", []string{"prefetch"}},
	{"Content-Type", []string{"application/json", "text/plain", "application/x-www-form-urlencoded"}},
	{"Content-Length", []string{"0", "17"}},
	{"Authorization", []string{"Bearer abc", "Basic Zm9vOmJhcg=="}},
	{"Cookie", []string{"sid=1"}},
	{"Referer", []string{"https://example.com/", "https://foo.example.com/page"}},
	{"Accept", []string{"*/*", "application/json"}},
	{"User-Agent", []string{"Mozilla/5.0", "curl/8.0"}},
	{"Cache-Control", []string{"no-cache", "max-age=0"}},
	{"Pragma", []string{"no-cache"}},
	{"Connection", []string{"keep-alive", "close", "upgrade"}},
	{"Upgrade", []string{"websocket", "h2c"}},
	{"Via", []string{"1.1 proxy"}},
	{"Forwarded", []string{"for=1.2.3.4;proto=https;host=example.com"}},
	{"X-Forwarded-For", []string{"1.2.3.4"}},
	{"X-Forwarded-Host", []string{"example.com", "server.test"}},
	{"X-Forwarded-Proto", []string{"https", "http"}},
	{"X-Http-Method-Override", []string{"GET", "OPTIONS", "PUT"}},
	{"X-Requested-With", []string{"XMLHttpRequest"}},
	{"Dnt", []string{"1"}},
	{"Te", []string{"trailers"}},
	{"Expect", []string{"100-continue"}},
	{"If-None-Match", []string{"\"abc\""}},
	{"Range", []string{"bytes=0-1"}},
	{"Accept-Encoding", []string{"gzip"}},
	{"Priority", []string{"u=1"}},
	{"Access-Control-Allow-Origin", []string{"*"}}, // a response header name sent as a request header
	{"Vary", []string{"Origin"}},
	// not a header: what else the *http.Request carries (Req.Shape)
	{":shape", []string{"1", "2", "3", "4", "5", "6", "7", "8", "9"}},
	// not a header: the request's Host (r.Host and URL), e.g. equal to the Origin's host
	{":host", []string{"example.com", "foo.example.com", "localhost", "example.com:443", "127.0.0.1:9090"}},
}

func genNoise(r *R) []HV {
	var out []HV
	for _, hv := range subset(r, noiseVocab, 0.12) {
		out = append(out, HV{hv.K, []string{pick(r, hv.V)}})
	}
	if t, ok := dict.tokens.pick(r, 0.15); ok && !strings.EqualFold(t, hOrigin) && !strings.EqualFold(t, hACRM) {
		// a literal of the tree under test as a header name (in the form net/http delivers), with a mined value
		v, _ := dict.any.pick(r, 1)
		out = append(out, HV{http.CanonicalHeaderKey(t), []string{v}})
	}
	if r.P(0.25) {
		out = append(out, HV{":shape", []string{strconv.Itoa(r.Range(1, nShapes-1))}})
	}
	if len(out) == 0 {
		hv := pick(r, noiseVocab)
		out = append(out, HV{hv.K, []string{pick(r, hv.V)}})
	}
	return out
}

// withNoise returns q with the headers of noise added (names q already has
// are left alone).
func (q Req) withNoise(noise []HV) Req {
	out := Req{Method: q.Method, Host: q.Host, Shape: q.Shape, H: append([]HV{}, q.H...)}
	for _, n := range noise {
		if n.K == ":shape" {
			if out.Shape == 0 && len(n.V) > 0 {
				out.Shape, _ = strconv.Atoi(n.V[0])
			}
			continue
		}
		if n.K == ":host" {
			if out.Host == "" && len(n.V) > 0 {
				out.Host = n.V[0]
			}
			continue
		}
		dup := false
		for _, h := range q.H {
			if strings.EqualFold(h.K, n.K) {
				dup = true
			}
		}
		if !dup {
			out.H = append(out.H, n)
		}
	}
	return out
}
