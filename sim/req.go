package main

// req.go: the two I/O seams of the middleware — the *http.Request it is
// given and the http.ResponseWriter / wrapped http.Handler it calls — as
// simulator-owned parties, plus canonical fingerprints of responses.

import (
	"fmt"
	"net/http"
	"net/url"
	"sort"
	"strings"
)

// HV is one header name with its field-line values, in order.
type HV struct {
	K string   `json:"k"`
	V []string `json:"v"`
}

// Req is a request as plain data. Header names are canonical MIME keys, as
// net/http's server delivers them.
type Req struct {
	Method string `json:"m"`
	H      []HV   `json:"h,omitempty"`
}

func (q Req) String() string {
	var sb strings.Builder
	sb.WriteString(q.Method)
	for _, h := range q.H {
		fmt.Fprintf(&sb, " %s=%q", h.K, h.V)
	}
	return sb.String()
}

func (q Req) get(k string) ([]string, bool) {
	for _, h := range q.H {
		if h.K == k {
			return h.V, true
		}
	}
	return nil, false
}

func (q Req) with(k string, v ...string) Req {
	out := Req{Method: q.Method}
	done := false
	for _, h := range q.H {
		if h.K == k {
			out.H = append(out.H, HV{k, append([]string{}, v...)})
			done = true
		} else {
			out.H = append(out.H, HV{h.K, append([]string{}, h.V...)})
		}
	}
	if !done {
		out.H = append(out.H, HV{k, append([]string{}, v...)})
	}
	return out
}

func (q Req) without(k string) Req {
	out := Req{Method: q.Method}
	for _, h := range q.H {
		if h.K != k {
			out.H = append(out.H, HV{h.K, append([]string{}, h.V...)})
		}
	}
	return out
}

var theURL = &url.URL{Scheme: "https", Host: "server.test", Path: "/resource"}

// build makes a fresh *http.Request sharing no memory with q.
func (q Req) build() *http.Request {
	h := make(http.Header, len(q.H))
	for _, hv := range q.H {
		vs := make([]string, len(hv.V))
		for i, v := range hv.V {
			vs[i] = strings.Clone(v)
		}
		h[hv.K] = vs
	}
	return &http.Request{Method: q.Method, URL: theURL, Proto: "HTTP/1.1", ProtoMajor: 1, ProtoMinor: 1, Header: h, Host: "server.test"}
}

const (
	hOrigin = "Origin"
	hACRM   = "Access-Control-Request-Method"
	hACRH   = "Access-Control-Request-Headers"
	hACRPN  = "Access-Control-Request-Private-Network"
	hVary   = "Vary"
	hACAO   = "Access-Control-Allow-Origin"
	hACAC   = "Access-Control-Allow-Credentials"
	hACAM   = "Access-Control-Allow-Methods"
	hACAH   = "Access-Control-Allow-Headers"
	hACMA   = "Access-Control-Max-Age"
	hACEH   = "Access-Control-Expose-Headers"
	hACAPN  = "Access-Control-Allow-Private-Network"
)

// ---- recording ResponseWriter

type wcall struct {
	Kind   string // header | writeheader | write
	Status int
	N      int
}

type recWriter struct {
	h        http.Header
	status   int // first WriteHeader (or 200 on first Write); 0 = none
	body     []byte
	calls    []wcall
	onHeader func()        // seam hooks (concsim)
	onWH     func(int)     // called before recording
	snapWH   http.Header   // deep copy of the header map at first WriteHeader
}

func newRec(preset []HV) *recWriter {
	w := &recWriter{h: http.Header{}}
	for _, hv := range preset {
		w.h[hv.K] = append([]string{}, hv.V...)
	}
	return w
}

func (w *recWriter) Header() http.Header {
	w.calls = append(w.calls, wcall{Kind: "header"})
	if w.onHeader != nil {
		w.onHeader()
	}
	return w.h
}
func (w *recWriter) WriteHeader(s int) {
	if w.onWH != nil {
		w.onWH(s)
	}
	w.calls = append(w.calls, wcall{Kind: "writeheader", Status: s})
	if w.status == 0 {
		w.status = s
		w.snapWH = cloneHeader(w.h)
	}
}
func (w *recWriter) Write(b []byte) (int, error) {
	w.calls = append(w.calls, wcall{Kind: "write", N: len(b)})
	if w.status == 0 {
		w.status = 200
		w.snapWH = cloneHeader(w.h)
	}
	w.body = append(w.body, b...)
	return len(b), nil
}

func cloneHeader(h http.Header) http.Header {
	out := make(http.Header, len(h))
	for k, v := range h {
		vs := make([]string, len(v))
		for i := range v {
			vs[i] = strings.Clone(v[i])
		}
		out[k] = vs
	}
	return out
}

// headerFP renders a header map canonically (sorted keys; value order kept).
func headerFP(h http.Header) string {
	keys := make([]string, 0, len(h))
	for k := range h {
		keys = append(keys, k)
	}
	sort.Strings(keys)
	var sb strings.Builder
	for _, k := range keys {
		fmt.Fprintf(&sb, "%s=%q;", k, h[k])
	}
	return sb.String()
}

// Resp is the canonical observable outcome of one request.
type Resp struct {
	Status  int    // as sent to the client (0 = handler wrote nothing)
	Headers string // header map as the client receives it (at first WriteHeader/Write, or at return)
	Body    string
	Handler int    // invocations of the wrapped handler
	Panic   string // non-empty if the call panicked
}

func (r Resp) String() string {
	s := fmt.Sprintf("%d %s body=%q handler=%d", r.Status, r.Headers, r.Body, r.Handler)
	if r.Panic != "" {
		s += " PANIC=" + r.Panic
	}
	return s
}

// constHandler is the constant wrapped handler used by differential checks.
type constHandler struct{ n *int }

func (h constHandler) ServeHTTP(w http.ResponseWriter, _ *http.Request) {
	*h.n++
	w.WriteHeader(200)
	w.Write([]byte("ok"))
}

// serve sends q through wrapped handler hh (already wrapped), returns the response.
func serveWith(hh http.Handler, q Req, preset []HV, invoked *int) (resp Resp) {
	w := newRec(preset)
	defer func() {
		if p := recover(); p != nil {
			resp = Resp{Panic: fmt.Sprint(p)}
		}
	}()
	*invoked = 0
	hh.ServeHTTP(w, q.build())
	hdr := w.snapWH
	if hdr == nil {
		hdr = w.h
	}
	return Resp{Status: w.status, Headers: headerFP(hdr), Body: string(w.body), Handler: *invoked}
}

// mwServer bundles a middleware-wrapped constant handler.
type mwServer struct {
	h       http.Handler
	invoked int
}

func newServer(wrap func(http.Handler) http.Handler) *mwServer {
	s := &mwServer{}
	s.h = wrap(constHandler{&s.invoked})
	return s
}
func (s *mwServer) do(q Req) Resp                { return serveWith(s.h, q, nil, &s.invoked) }
func (s *mwServer) doPreset(q Req, p []HV) Resp { return serveWith(s.h, q, p, &s.invoked) }
