package main

// c02.go — protosim: browser <-> intermediary <-> real middleware protocol
// runs. The browser is an executable transcription of Fetch's
// "CORS-preflight fetch" (steps 7.x), "CORS check", "extract header list
// values", method normalisation and PNA's Allow-Private-Network check; the
// intermediary injects the documented-tolerated alterations of
// Access-Control-Request-Headers in flight (fault F5); debug mode is live
// middleware state. The oracle "what the configuration means" is written from
// the Config documentation only.

import (
	"encoding/json"
	"fmt"
	"strconv"
	"strings"
	"time"

	"github.com/jub0bs/cors"
)

type Intent struct {
	Origin  string   `json:"origin"`
	Method  string   `json:"method"`            // as the page wrote it
	Headers []string `json:"headers,omitempty"` // author-set CORS-unsafe request-header names
	Creds   bool     `json:"creds,omitempty"`   // credentials mode "include"
	PNA     bool     `json:"pna,omitempty"`     // target is in a more private address space
	// SameHost: the server is reached under the very host[:port] of the page's
	// origin (other scheme, or a fronting proxy); still cross-origin for the
	// browser when schemes differ, and in any case nothing the verdict may depend on
	SameHost bool `json:"same_host,omitempty"`
	// UA selects the bystander headers this browser attaches (0: none, as before):
	// Fetch metadata as browsers send it on cross-origin fetches, Referer, Accept,
	// User-Agent; the credentials themselves on the actual request when Creds.
	// Nothing the verdict may depend on.
	UA int `json:"ua,omitempty"`
}

// uaHeaders: what a browser of kind ua adds to a cross-origin request of the
// given stage. A cross-origin fetch is never labelled same-origin.
func uaHeaders(in Intent, preflight bool) []HV {
	var h []HV
	switch in.UA % 4 {
	case 0:
		return nil
	case 1, 2:
		site := "cross-site"
		if in.UA%4 == 2 {
			site = "same-site"
		}
		h = append(h, HV{"Sec-Fetch-Mode", []string{"cors"}}, HV{"Sec-Fetch-Site", []string{site}}, HV{"Sec-Fetch-Dest", []string{"empty"}},
			HV{"Accept", []string{"*/*"}}, HV{"User-Agent", []string{"Mozilla/5.0"}}, HV{"Referer", []string{in.Origin + "/"}})
	case 3: // browser predating Fetch metadata
		h = append(h, HV{"Accept", []string{"*/*"}}, HV{"Referer", []string{in.Origin + "/page"}}, HV{"Connection", []string{"keep-alive"}})
	}
	if in.Creds && !preflight {
		h = append(h, HV{"Cookie", []string{"sid=1"}})
	}
	return h
}

// Alteration is one in-flight change of the ACRH field (fault F5).
type Alteration struct {
	Kind string `json:"kind"` // ows_left | ows_right | ows_both | empty | split | empty_line
	At   int    `json:"at"`   // element index (mod n)
	Tab  bool   `json:"tab,omitempty"`
	N    int    `json:"n,omitempty"` // number of empty elements for "empty"
}

type C02Plan struct {
	Cfg     Cfg          `json:"cfg"`
	Intents []Intent     `json:"intents"`
	Alts    []Alteration `json:"alterations"`
	// How the debug-off and the debug-on middleware reach (Cfg, mode): 0 fresh
	// NewMiddleware; 1 zero value + Reconfigure; 2 configured with Other, mode
	// set, then Reconfigure(Cfg); 3 through passthrough and back; 4 via
	// Reconfigure(Config()); 5 after a rejected Reconfigure. The verdict must not
	// depend on the route (nor, by the property, on the mode).
	Routes [2]int `json:"routes"`
	Other  *Cfg   `json:"other,omitempty"`
	// Gaps[i]: simulated seconds that pass before intent i in the world of the
	// CACHING browser (one browser with a CORS-preflight cache runs all intents in
	// order). Empty: that world is not run.
	Gaps []int `json:"gaps,omitempty"`
	// Lenient: Cfg is a perturbed configuration (perturbCfg) that the documentation
	// prohibits and the tree under test accepts all the same. What it means is not
	// documented, so permits() is not consulted; the library must still agree with
	// itself: one verdict per intent, whatever the debug mode and the alterations.
	Lenient bool `json:"lenient,omitempty"`
	// OuterVary: an outer layer (compression, a response cache, another policy layer) has put
	// these values into Vary before the middleware runs; the verdict may not depend on them.
	OuterVary []string `json:"outer_vary,omitempty"`
	// Switch: at the end the operator switches both middlewares to Other (the pages stay
	// open) and every intent is run again; the verdict is then what OTHER means.
	Switch bool `json:"switch,omitempty"`
}

type c02 struct{}

func init() { register(c02{}) }

func (c02) ID() string    { return "C02" }
func (c02) Level() string { return "exploration" }
func (c02) Rule() string {
	return "one case = one accepted configuration + 1..4 browser intents (origin: matching or near-miss of a pattern; method as the page wrote it; subset of a 10-name CORS-unsafe header universe incl. authorization; credentials include/omit; private-network target yes/no) + 0..3 in-flight alterations of Access-Control-Request-Headers within the documented tolerance; the debug-off and debug-on middlewares reach their state through one of six API routes (fresh, zero value+Reconfigure, via another configuration, through passthrough, via Reconfigure(Config()), via a Config value edited in place and passed again) or, a third of the time, through a random walk of up to four operator calls (SetDebug on/off, Reconfigure to the other configuration, to nil, to this one) before the final Reconfigure(cfg), SetDebug(mode); every intent is run four ways in the same simulated world (debug off/on x alterations off/on) as a full protocol run (preflight when Fetch requires one, then the actual request); distinct = distinct plan hash; non-trivial = at least one intent needed a preflight"
}
func (c02) Budget(tier string) (int, time.Duration) {
	if tier == "thorough" {
		return 12_000_000, 12 * time.Minute
	}
	return 500_000, 40 * time.Second
}
func (c02) Assumptions() []string {
	return []string{
		"browser model: Fetch CORS-preflight fetch steps 7.x, CORS check, extract-header-list-values (comma-split, HTTP-whitespace-trimmed, empty elements ignored, non-token element = failure), method normalisation (DELETE/GET/HEAD/OPTIONS/POST/PUT), CORS-safelisted methods GET/HEAD/POST, CORS non-wildcard request-header name authorization, PNA: Access-Control-Allow-Private-Network must be 'true' for a private-network target; preflight cache not modelled",
		"origins are tuple origins in the spelling browsers serialise (lower-case, default ports elided); the null origin is out of scope",
		"header names in an intent are assumed CORS-unsafe (the page set them to non-safelisted values); forbidden request-header names never occur",
		"only alterations the documentation tolerates are injected (<=1 SP/HTAB per side of an element, <=16 empty elements in total, value split at element boundaries over <=4 field lines); nothing is asserted about others",
		"permits() is the property statement: origin denoted by a listed pattern; include => Credentialed; method safelisted, *, or listed after normalisation else byte-equal; names listed case-insensitively or covered by *, which covers authorization only if Credentialed or explicitly listed; PNA target => PrivateNetworkAccess; never under PrivateNetworkAccessInNoCORSModeOnly",
	}
}
func (c02) Parties() map[string]string {
	return map[string]string{"cors.Middleware": "real", "browser (Fetch client)": "model", "intermediary altering Access-Control-Request-Headers": "model (fault injector F5)", "wrapped handler": "stub (constant)", "what-the-Config-means predicate": "model (independent, from documentation)"}
}
func (c02) FaultKinds() []string {
	return []string{"F5_ows", "F5_empty_elements", "F5_split_lines", "F5_empty_line", "F5_ows_around_empty_element"}
}
func (c02) Probes() []string {
	return []string{"verdict_success", "verdict_fail_preflight", "verdict_fail_actual", "preflight_needed", "no_preflight_needed", "debug_on_failing_preflight", "authorization_under_star", "credentialed_intent", "pna_intent", "method_normalised", "altered_preflight_sent", "state_reached_via_history_route", "browser_bystander_headers", "preflight_result_cached", "preflight_skipped_by_cache", "late_serialisation_after_other_traffic"}
}

var c02HeaderUniverse = []string{"authorization", "content-type", "x-foo", "x-bar", "x-baz-qux", "accept", "cache-control", "x-a", "x-requested-with", "x-not-listed",
	"x-fo", "x-foo-bar", "content-typ", "authorizationx", "x-"} // prefixes / extensions of names a configuration may list
var c02Methods = []string{"GET", "POST", "HEAD", "PUT", "put", "Put", "DELETE", "delete", "PATCH", "patch", "OPTIONS", "options", "PURGE", "QUERY", "Foo", "FOO", "get", "UNLISTED"}

func genIntent(r *R, c Cfg) Intent {
	match, miss := originsFor(c)
	var in Intent
	pool := match
	if len(match) == 0 || r.P(0.25) {
		pool = append(append([]string{}, miss...), "https://evil.test")
	}
	// only origins a browser can serialise
	var ok []string
	for _, o := range pool {
		if browserSerialisable(o) {
			ok = append(ok, o)
		}
	}
	if len(ok) == 0 {
		ok = []string{"https://evil.test"}
	}
	in.Origin = pick(r, ok)
	if r.P(0.35) {
		in.Method = pick(r, []string{"GET", "POST", "HEAD"})
	} else if r.P(0.5) && len(c.Methods) > 0 {
		in.Method = pick(r, c.Methods)
		if in.Method == "*" {
			in.Method = pick(r, c02Methods)
		}
	} else {
		in.Method = pick(r, c02Methods)
	}
	switch x := r.Intn(10); {
	case x < 3:
	case x < 7:
		// mostly names the configuration lists (in their lower-case form)
		for _, h := range c.RequestHeaders {
			if h != "*" && r.P(0.6) {
				in.Headers = append(in.Headers, strings.ToLower(h))
			}
		}
		if r.P(0.3) {
			in.Headers = append(in.Headers, pick(r, c02HeaderUniverse))
		}
		if r.P(0.25) { // every listed name, plus (often) exactly one that is not listed
			in.Headers = nil
			for _, h := range c.RequestHeaders {
				if h != "*" {
					in.Headers = append(in.Headers, strings.ToLower(h))
				}
			}
			if r.P(0.7) {
				in.Headers = append(in.Headers, pick(r, []string{"zz-not-listed", "x-not-listed", "a-not-listed", pick(r, c02HeaderUniverse)}))
			}
		}
	default:
		in.Headers = subset(r, c02HeaderUniverse, 0.25)
	}
	in.Headers = lowerSortedUnique(in.Headers)
	if len(in.Headers) == 0 {
		in.Headers = nil
	}
	in.Creds = r.P(0.35)
	in.PNA = r.P(0.25)
	in.SameHost = r.P(0.15)
	if r.P(0.5) {
		in.UA = r.Range(1, 3)
	}
	// literals of the tree under test (dict.go): a host, a port, a method, a header name
	if len(dict.any.all) > 0 && r.P(0.12) {
		o := in.Origin
		if h, ok := dict.hosts.pick(r, 0.4); ok {
			o = pick(r, []string{"https://", "http://"}) + h
		}
		if n, ok := dict.ports.pick(r, 0.5); ok {
			if pp, good := splitPattern(o); good && pp.Host != "" {
				o = fmt.Sprintf("%s://%s:%d", pp.Scheme, pp.Host, n)
			}
		}
		if browserSerialisable(o) {
			in.Origin = o
		}
		if t, ok := dict.tokens.pick(r, 0.3); ok && strings.Trim(t, "ABCDEFGHIJKLMNOPQRSTUVWXYZabcdefghijklmnopqrstuvwxyz0123456789") == "" {
			switch strings.ToUpper(t) {
			case "CONNECT", "TRACE", "TRACK": // fetch() throws on forbidden methods: not an intent a page can have
			default:
				in.Method = t
			}
		}
		if t, ok := dict.tokens.pick(r, 0.4); ok {
			if t = strings.ToLower(t); strings.Trim(t, "abcdefghijklmnopqrstuvwxyz0123456789-") == "" && !forbiddenRequestHeader(t) {
				in.Headers = append(in.Headers, t)
			}
		}
	}
	return in
}

// forbiddenRequestHeader: Fetch's "forbidden request-header" names, which a
// page cannot set (the browser drops them silently): never part of an intent.
func forbiddenRequestHeader(lower string) bool {
	switch lower {
	case "accept-charset", "accept-encoding", "access-control-request-headers", "access-control-request-method", "access-control-request-private-network",
		"connection", "content-length", "cookie", "cookie2", "date", "dnt", "expect", "host", "keep-alive", "origin", "referer", "set-cookie",
		"te", "trailer", "transfer-encoding", "upgrade", "via", "x-http-method", "x-http-method-override", "x-method-override":
		return true
	}
	return strings.HasPrefix(lower, "proxy-") || strings.HasPrefix(lower, "sec-")
}

// browserSerialisable reports whether o is a tuple origin in a spelling a
// browser can emit: lower-case scheme, host either a bracketed IPv6 literal, a
// dotted quad, or a domain whose last label is not numeric; optional port.
func browserSerialisable(o string) bool {
	pp, good := splitPattern(o)
	if !good || pp.Wild || o != strings.ToLower(o) || pp.Host == "" || pp.Port == "*" {
		return false
	}
	if pp.Scheme == "" || pp.Scheme[0] < 'a' || pp.Scheme[0] > 'z' || strings.Trim(pp.Scheme, "abcdefghijklmnopqrstuvwxyz0123456789+.-") != "" {
		return false
	}
	if len(pp.Scheme) > 64 || len(strings.TrimSuffix(pp.Host, ".")) > 253 {
		return false // beyond the documented limits (64-byte scheme, 253-byte host): not an origin the library claims to serve, even under `*`
	}
	if pp.Port != "" && strings.Trim(pp.Port, "0123456789") != "" {
		return false
	}
	if pp.Scheme == "https" && pp.Port == "443" || pp.Scheme == "http" && pp.Port == "80" {
		return false // browsers elide default ports
	}
	h := pp.Host
	if h[0] == '[' {
		// an IPv6 literal: hex digits, colons (at least one), possibly a dotted quad at the end
		in := h[1 : len(h)-1]
		return h[len(h)-1] == ']' && strings.Contains(in, ":") && strings.Trim(in, "0123456789abcdef:.") == ""
	}
	if strings.ContainsAny(h, "[]:") || h[0] == '.' || strings.Contains(h, "..") || strings.Trim(h, "abcdefghijklmnopqrstuvwxyz0123456789.-") != "" {
		return false
	}
	labels := strings.Split(strings.TrimSuffix(h, "."), ".")
	last := labels[len(labels)-1]
	numeric := last != "" && strings.Trim(last, "0123456789") == ""
	if numeric {
		if len(labels) != 4 {
			return false
		}
		for _, l := range labels {
			if l == "" || strings.Trim(l, "0123456789") != "" {
				return false
			}
		}
	}
	return true
}

func (c02) Gen(r *R, tier string) any {
	allowHugeOriginLists = true
	observeUnknownAPI = false
	p := &C02Plan{Cfg: genCfg(r)}
	if r.P(0.05) {
		p.Cfg, p.Lenient = genCfgLenient(r, p.Cfg)
	}
	n := r.Range(1, 4)
	for i := 0; i < n; i++ {
		in := genIntent(r, p.Cfg)
		if i > 0 && r.P(0.5) {
			// a later request of the same page to the same resource: origin, credentials
			// mode and browser as before, another method / other headers - what a
			// CORS-preflight cache entry of the earlier exchange may or may not cover
			prev := p.Intents[r.Intn(i)]
			in.Origin, in.Creds, in.UA, in.SameHost, in.PNA = prev.Origin, prev.Creds, prev.UA, prev.SameHost, false
			if r.P(0.3) {
				in.Headers = append(append([]string{}, prev.Headers...), in.Headers...)
			}
			if r.P(0.5) {
				// the sibling operations of a REST resource, the usual suspects among headers
				in.Method = pick(r, []string{"PUT", "DELETE", "PATCH", "POST", "GET", "PUT", "DELETE"})
				in.Headers = nil
				if r.P(0.5) {
					in.Headers = []string{pick(r, []string{"content-type", "authorization", "x-requested-with", "accept", "x-foo"})}
				}
			}
		}
		p.Intents = append(p.Intents, in)
	}
	if n > 1 && r.P(0.7) {
		for i := 0; i < n; i++ {
			p.Gaps = append(p.Gaps, pick(r, []int{0, 0, 0, 1, 4, 5, 6, 60, 599, 600, 601, 7199, 7201, 86399, 86401}))
		}
	}
	if r.P(0.5) {
		o := genCfg(r)
		p.Other = &o
		p.Routes = [2]int{r.Intn(6), r.Intn(6)}
		for i := range p.Routes { // a third of the routes: a random walk through the operator API (viaRoute)
			if r.P(0.33) {
				p.Routes[i] = 6 + r.Intn(3*625)
			}
		}
		p.Switch = r.P(0.3)
	}
	if r.P(0.2) {
		for n := pick(r, []int{1, 1, 2}); n > 0; n-- {
			p.OuterVary = append(p.OuterVary, pick(r, []string{"Origin", "Origin", "origin", "Accept-Encoding", "Accept-Encoding, Origin", "Cookie",
				"Access-Control-Request-Method", "Access-Control-Request-Headers, Access-Control-Request-Method, Access-Control-Request-Private-Network, Origin", "X-Forwarded-Origin", "*"}))
		}
	}
	k := pick(r, []int{0, 1, 2, 3, 3, 4, 6})
	kinds := []string{"ows_left", "ows_right", "ows_both", "empty", "empty", "split", "split", "empty_line"}
	for i := 0; i < k; i++ {
		p.Alts = append(p.Alts, Alteration{Kind: pick(r, kinds), At: r.Intn(8), Tab: r.P(0.4), N: pick(r, []int{1, 1, 2, 3, 5, 8, 16})})
	}
	return p
}

func (c02) Decode(b []byte) (any, error) {
	var p C02Plan
	err := json.Unmarshal(b, &p)
	return &p, err
}

// ---------------------------------------------------------------- the browser

func normalizeMethod(m string) string {
	u := strings.ToUpper(m)
	switch u {
	case "DELETE", "GET", "HEAD", "OPTIONS", "POST", "PUT":
		return u
	}
	return m
}

func isSafelistedMethod(m string) bool { return m == "GET" || m == "HEAD" || m == "POST" }

func isToken(s string) bool {
	if s == "" {
		return false
	}
	for i := 0; i < len(s); i++ {
		c := s[i]
		if c >= '0' && c <= '9' || c >= 'a' && c <= 'z' || c >= 'A' && c <= 'Z' {
			continue
		}
		if strings.IndexByte("!#$%&'*+-.^_`|~", c) < 0 {
			return false
		}
	}
	return true
}

// extractList is Fetch's "extract header list values" for a #token header:
// nil,false = header absent; failure = a non-token element.
func extractList(fp, name string) (vals []string, present bool, failure bool) {
	lines, ok := fpGet(fp, name)
	if !ok || len(lines) == 0 {
		return nil, false, false
	}
	combined := strings.Join(lines, ", ") // "get": values combined with 0x2C 0x20
	for _, el := range strings.Split(combined, ",") {
		el = strings.Trim(el, " \t")
		if el == "" {
			continue // RFC 9110 5.6.1.2: recipients ignore empty list elements
		}
		if !isToken(el) {
			return nil, true, true
		}
		vals = append(vals, el)
	}
	return vals, true, false
}

// headerGet is Fetch's "get" on a header list.
func headerGet(fp, name string) (string, bool) {
	lines, ok := fpGet(fp, name)
	if !ok || len(lines) == 0 {
		return "", false
	}
	return strings.Join(lines, ", "), true
}

// corsCheck is Fetch's "CORS check".
func corsCheck(in Intent, fp string) (bool, string) {
	origin, ok := headerGet(fp, hACAO)
	if !ok {
		return false, "no Access-Control-Allow-Origin"
	}
	if !in.Creds && origin == "*" {
		return true, ""
	}
	if origin != in.Origin {
		return false, fmt.Sprintf("Access-Control-Allow-Origin %q != %q", origin, in.Origin)
	}
	if !in.Creds {
		return true, ""
	}
	if cred, ok := headerGet(fp, hACAC); ok && cred == "true" {
		return true, ""
	}
	return false, "credentials mode include but Access-Control-Allow-Credentials is not 'true'"
}

func containsFold(list []string, s string) bool {
	for _, x := range list {
		if strings.EqualFold(x, s) {
			return true
		}
	}
	return false
}
func contains(list []string, s string) bool {
	for _, x := range list {
		if x == s {
			return true
		}
	}
	return false
}

// alter applies the in-flight alterations to the browser's single ACRH value
// and returns the field lines the server receives. Invariants kept (the
// documented tolerance): at most one SP/HTAB per side of an element, at most
// 16 empty elements in total (an empty field line counts as one), at most 4
// field lines, splits only at element boundaries, order of names unchanged.
func alter(names []string, alts []Alteration, c *Ctx) []string {
	if len(names) == 0 {
		return nil
	}
	lines := [][]string{append([]string{}, names...)}
	countEmpties := func() int {
		n := 0
		for _, l := range lines {
			if len(l) == 0 {
				n++
			}
			for _, e := range l {
				if strings.Trim(e, " \t") == "" {
					n++
				}
			}
		}
		return n
	}
	// locate the k-th element overall
	locate := func(k int) (li, ei int) {
		total := 0
		for _, l := range lines {
			total += len(l)
		}
		if total == 0 {
			return -1, -1
		}
		k %= total
		for li, l := range lines {
			if k < len(l) {
				return li, k
			}
			k -= len(l)
		}
		return -1, -1
	}
	for _, a := range alts {
		li, ei := locate(a.At)
		if li < 0 {
			continue
		}
		ws := " "
		if a.Tab {
			ws = "\t"
		}
		el := lines[li][ei]
		padL := strings.HasPrefix(el, " ") || strings.HasPrefix(el, "\t")
		padR := strings.HasSuffix(el, " ") || strings.HasSuffix(el, "\t")
		if strings.Trim(el, " \t") == "" && strings.HasPrefix(a.Kind, "ows_") {
			// an EMPTY element may be padded too: one OWS byte, or one on each side
			switch {
			case el == "" && a.Kind == "ows_both":
				lines[li][ei] = ws + " "
				c.hit("F5_ows_around_empty_element")
			case el == "":
				lines[li][ei] = ws
				c.hit("F5_ows_around_empty_element")
			}
			continue
		}
		switch a.Kind {
		case "ows_left":
			if el != "" && !padL {
				lines[li][ei] = ws + el
				c.hit("F5_ows")
			}
		case "ows_right":
			if el != "" && !padR {
				lines[li][ei] = el + ws
				c.hit("F5_ows")
			}
		case "ows_both":
			if el != "" && !padL && !padR {
				lines[li][ei] = ws + el + ws
				c.hit("F5_ows")
			}
		case "empty":
			n := a.N
			if n < 1 {
				n = 1
			}
			if countEmpties()+n > 16 {
				continue
			}
			l := lines[li]
			nl := append([]string{}, l[:ei]...)
			nl = append(nl, make([]string, n)...)
			nl = append(nl, l[ei:]...)
			lines[li] = nl
			c.hit("F5_empty_elements")
		case "split":
			if ei == 0 || len(lines) >= 4 {
				continue
			}
			l := lines[li]
			a1, a2 := append([]string{}, l[:ei]...), append([]string{}, l[ei:]...)
			lines = append(lines[:li], append([][]string{a1, a2}, lines[li+1:]...)...)
			c.hit("F5_split_lines")
		case "empty_line":
			if len(lines) >= 4 || countEmpties()+1 > 16 {
				continue
			}
			lines = append(lines[:li+1], append([][]string{{}}, lines[li+1:]...)...)
			c.hit("F5_empty_line")
		}
	}
	out := make([]string, len(lines))
	for i, l := range lines {
		out[i] = strings.Join(l, ",")
	}
	return out
}

type verdict struct {
	OK    bool
	Stage string // "" | preflight | actual
	Why   string
}

// fetch runs the whole protocol for one intent against the real middleware.
func browserFetch(srv *mwServer, in Intent, alts []Alteration, c *Ctx, trace *[]string) verdict {
	return browserFetchCached(srv, in, alts, c, trace, nil)
}

// ---- the CORS-preflight cache (Fetch, "CORS-preflight cache")

type pcEntry struct {
	origin, url string
	creds       bool
	method      string // "" for a header-name entry
	header      string // "" for a method entry
	expires     int    // simulated seconds
}

type preflightCache struct {
	now     int // simulated clock (seconds); the only clock this world has
	cap     int // the user agent's limit on max-age
	entries []pcEntry
}

func (pc *preflightCache) entryMatch(e pcEntry, in Intent, url string) bool {
	// "cache entry match": same origin, same URL, and (entry's credentials is true, or the
	// request's credentials mode is not "include"); expired entries are gone
	return e.origin == in.Origin && e.url == url && pc.now < e.expires && (e.creds || !in.Creds)
}

func (pc *preflightCache) methodMatch(in Intent, url, method string) bool {
	for _, e := range pc.entries {
		// a `*` entry is honoured only where `*` is a wildcard (stored without credentials)
		if e.header == "" && pc.entryMatch(e, in, url) && (e.method == method || e.method == "*" && !e.creds) {
			return true
		}
	}
	return false
}

func (pc *preflightCache) headerMatch(in Intent, url, name string) bool {
	for _, e := range pc.entries {
		if e.method == "" && pc.entryMatch(e, in, url) && (strings.EqualFold(e.header, name) || e.header == "*" && !e.creds && name != "authorization") {
			return true
		}
	}
	return false
}

func (pc *preflightCache) store(in Intent, url string, methods, headerNames []string, maxAge int) {
	if maxAge > pc.cap {
		maxAge = pc.cap
	}
	upsert := func(method, header string) {
		for i, e := range pc.entries {
			if e.origin == in.Origin && e.url == url && e.creds == in.Creds && e.method == method && strings.EqualFold(e.header, header) && pc.now < e.expires {
				pc.entries[i].expires = pc.now + maxAge
				return
			}
		}
		pc.entries = append(pc.entries, pcEntry{in.Origin, url, in.Creds, method, header, pc.now + maxAge})
	}
	for _, m := range methods {
		upsert(m, "")
	}
	for _, h := range headerNames {
		upsert("", h)
	}
}

// browserFetchCached: as browserFetch; with a cache, the preflight is skipped
// when the method (unless safelisted) and every unsafe header name have a
// cache entry match, and a successful preflight populates the cache.
func browserFetchCached(srv *mwServer, in Intent, alts []Alteration, c *Ctx, trace *[]string, pc *preflightCache) verdict {
	method := normalizeMethod(in.Method)
	if method != in.Method {
		c.hit("method_normalised")
	}
	names := lowerSortedUnique(in.Headers)
	needPreflight := !isSafelistedMethod(method) || len(names) > 0 || in.PNA
	url := Req{Host: hostOf(in), Shape: []int{0, 2, 3, 1}[in.UA%4]}.urlKey()
	if pc != nil && needPreflight && !in.PNA {
		covered := isSafelistedMethod(method) || pc.methodMatch(in, url, method)
		for _, n := range names {
			covered = covered && pc.headerMatch(in, url, n)
		}
		if covered {
			needPreflight = false
			c.hit("preflight_skipped_by_cache")
			*trace = append(*trace, fmt.Sprintf("t=%ds preflight skipped: CORS-preflight cache covers %s %v", pc.now, method, names))
		}
	}
	if needPreflight {
		c.hit("preflight_needed")
		q := Req{Method: "OPTIONS", H: []HV{{hOrigin, []string{in.Origin}}, {hACRM, []string{method}}}, Host: hostOf(in)}
		if len(names) > 0 {
			lines := []string{strings.Join(names, ",")}
			if len(alts) > 0 {
				lines = alter(names, alts, c)
				c.hit("altered_preflight_sent")
			}
			q.H = append(q.H, HV{hACRH, lines})
		}
		if in.PNA {
			q.H = append(q.H, HV{hACRPN, []string{"true"}})
		}
		if ua := uaHeaders(in, true); ua != nil {
			q = q.withNoise(ua)
			q.Shape = []int{0, 2, 3, 1}[in.UA%4] // HTTP/2 over TLS, a path with a query, an HTTP/1.0 client
			c.hit("browser_bystander_headers")
		}
		resp := srv.do(q)
		*trace = append(*trace, fmt.Sprintf("preflight %s -> %s", q, resp))
		if resp.Panic != "" {
			return verdict{false, "panic", resp.Panic}
		}
		// step 7: CORS check and ok status
		if ok, why := corsCheck(in, resp.Headers); !ok {
			return verdict{false, "preflight", "CORS check: " + why}
		}
		if !isOK(resp.Status) {
			return verdict{false, "preflight", fmt.Sprintf("status %d is not an ok status", resp.Status)}
		}
		methods, _, f1 := extractList(resp.Headers, hACAM)
		headerNames, _, f2 := extractList(resp.Headers, hACAH)
		if f1 || f2 {
			return verdict{false, "preflight", "Access-Control-Allow-Methods/-Headers failed to parse"}
		}
		if !contains(methods, method) && !isSafelistedMethod(method) && (in.Creds || !contains(methods, "*")) {
			return verdict{false, "preflight", fmt.Sprintf("method %q not in %q", method, methods)}
		}
		for _, n := range names {
			if n == "authorization" && !containsFold(headerNames, n) {
				return verdict{false, "preflight", fmt.Sprintf("non-wildcard name authorization not in %q", headerNames)}
			}
		}
		for _, n := range names {
			if !containsFold(headerNames, n) && (in.Creds || !contains(headerNames, "*")) {
				return verdict{false, "preflight", fmt.Sprintf("header %q not in %q", n, headerNames)}
			}
		}
		if in.PNA {
			if v, ok := headerGet(resp.Headers, hACAPN); !ok || v != "true" {
				return verdict{false, "preflight", "private-network target but no Access-Control-Allow-Private-Network: true"}
			}
		}
		if pc != nil && !in.PNA {
			// max-age: the single Access-Control-Max-Age value if it is a non-negative integer, else 5
			maxAge := 5
			if lines, ok := fpGet(resp.Headers, hACMA); ok && len(lines) == 1 {
				if n, err := strconv.Atoi(lines[0]); err == nil && n >= 0 && strings.Trim(lines[0], "0123456789") == "" {
					maxAge = n
				}
			}
			pc.store(in, url, methods, headerNames, maxAge)
			c.hit("preflight_result_cached")
		}
	} else {
		c.hit("no_preflight_needed")
	}
	q := Req{Method: method, H: []HV{{hOrigin, []string{in.Origin}}}, Host: hostOf(in)}
	for _, n := range in.Headers {
		q.H = append(q.H, HV{canonical(n), []string{"v"}})
	}
	q = q.withNoise(uaHeaders(in, false))
	q.Shape = []int{0, 2, 3, 1}[in.UA%4]
	resp := srv.do(q)
	*trace = append(*trace, fmt.Sprintf("actual %s -> %s", q, resp))
	if resp.Panic != "" {
		return verdict{false, "panic", resp.Panic}
	}
	if ok, why := corsCheck(in, resp.Headers); !ok {
		return verdict{false, "actual", "CORS check: " + why}
	}
	return verdict{true, "", ""}
}

func hostOf(in Intent) string {
	if !in.SameHost {
		return ""
	}
	if i := strings.Index(in.Origin, "://"); i >= 0 {
		return in.Origin[i+3:]
	}
	return ""
}

func canonical(n string) string {
	b := []byte(strings.ToLower(n))
	up := true
	for i, ch := range b {
		if up && ch >= 'a' && ch <= 'z' {
			b[i] = ch - 32
		}
		up = ch == '-'
	}
	return string(b)
}

// ---------------------------------------------------------------- the oracle

func permits(c Cfg, in Intent) (bool, string) {
	if c.PNANoCors {
		return false, "no-cors-only PNA mode never permits cors-mode requests"
	}
	if !cfgAllowsOrigin(c, in.Origin) {
		return false, "origin not allowed"
	}
	if in.Creds && !c.Credentialed {
		return false, "credentials but not Credentialed"
	}
	method := normalizeMethod(in.Method)
	if !isSafelistedMethod(method) {
		ok := false
		for _, m := range c.Methods {
			if m == "*" || normalizeMethod(m) == method {
				ok = true
			}
		}
		if !ok {
			return false, "method not allowed"
		}
	}
	star := contains(c.RequestHeaders, "*")
	for _, n := range in.Headers {
		if containsFold(c.RequestHeaders, n) {
			continue
		}
		if !star {
			return false, "header " + n + " not allowed"
		}
		if strings.EqualFold(n, "authorization") && !c.Credentialed {
			return false, "authorization not covered by * without credentials"
		}
	}
	if in.PNA && !c.PNA {
		return false, "private-network access not enabled"
	}
	return true, ""
}

// viaRoute builds a middleware that is in state (cfg, debug) by the given route.
// It also returns the configuration that was actually PASSED to the last
// successful constructor/Reconfigure call: for route 4 that is what Config()
// returned — an accepted configuration in its own right — and the browser's
// verdict is judged against that one, so that a defect of Config() (C06) is
// not reported here.
func viaRoute(route int, cfg Cfg, other *Cfg, debug bool, c *Ctx) (m *cors.Middleware, installed Cfg, ok bool) {
	installed = cfg
	if other == nil {
		route = 0
	}
	walk := -1
	if route >= 6 {
		walk, route = route-6, 6
	} else {
		route %= 6
	}
	pan := catch(func() {
		cc := cfg.Config()
		switch route {
		case 6:
			// a random walk: start (the other configuration, this one, or the zero value), then
			// up to four operator calls read off the route number, then whatever it takes to be in
			// (cfg, debug): Reconfigure(cfg), SetDebug(debug). What an earlier state left behind
			// (a flag, a memo computed under another configuration) must not show.
			start := walk % 3
			walk /= 3
			switch start {
			case 0:
				m, _ = mkMW(other.Config())
			case 1:
				m, _ = mkMW(cfg.Config())
			default:
				m = zeroMW()
			}
			if m == nil {
				return
			}
			for i := 0; i < 4 && walk > 0; i++ {
				betweenSteps("a step of the route")
				switch walk % 5 {
				case 0:
					setDebugN(m, true)
				case 1:
					setDebugN(m, false)
				case 2:
					oc := other.Config()
					if reconfN(m, &oc) != nil {
						m = nil
						return
					}
				case 3:
					reconfN(m, nil)
				case 4:
					c2 := cfg.Config()
					if reconfN(m, &c2) != nil {
						m = nil
						return
					}
				}
				walk /= 5
			}
			betweenSteps("the last step of the route")
			if reconfN(m, &cc) != nil {
				m = nil
				return
			}
			setDebugN(m, debug)
		default:
			var err error
			if m, err = mkMW(cc); err != nil {
				return
			}
			m.SetDebug(debug)
		case 1:
			m = zeroMW()
			if m.Reconfigure(&cc) != nil {
				m = nil
				return
			}
			m.SetDebug(debug)
		case 2:
			var err error
			if m, err = mkMW(other.Config()); err != nil {
				m = nil
				return
			}
			m.SetDebug(debug)
			if m.Reconfigure(&cc) != nil {
				m = nil
			}
		case 3:
			var err error
			if m, err = mkMW(cc); err != nil {
				return
			}
			m.SetDebug(!debug)
			m.Reconfigure(nil)
			c2 := cfg.Config()
			if m.Reconfigure(&c2) != nil {
				m = nil
				return
			}
			m.SetDebug(debug)
		case 4:
			var err error
			if m, err = mkMW(cc); err != nil {
				return
			}
			m.SetDebug(debug)
			snap := m.Config()
			if snap == nil || m.Reconfigure(snap) != nil {
				m = nil // Config() not re-accepted: C06's business, nothing to judge here
				return
			}
			installed = *fromConfig(snap)
		case 5:
			// hot reload: the operator keeps ONE Config value, edits it in place (same
			// backing arrays where they are big enough) and passes the same pointer again
			live := other.Config()
			if (len(cfg.Origins)+len(cfg.Methods)+len(cfg.RequestHeaders))%2 == 0 {
				// the smallest edit: the value passed before differs from cfg in ONE element of one
				// list (same lengths, same scalars), which is then overwritten in place
				live = cfg.Config()
				switch {
				case len(live.Methods) > 0 && live.Methods[0] != "*" && len(cfg.Origins)%2 == 0:
					live.Methods[0] = "BEFORE"
				case len(live.Origins) > 0 && live.Origins[0] != "*":
					live.Origins[0] = "https://before-the-edit.example.org"
				case len(live.RequestHeaders) > 0 && live.RequestHeaders[0] != "*":
					live.RequestHeaders[0] = "X-Before-The-Edit"
				}
			}
			m = zeroMW()
			if m.Reconfigure(&live) != nil {
				m = nil
				return
			}
			m.SetDebug(debug)
			live.Origins = editInPlace(live.Origins, cc.Origins)
			live.Methods = editInPlace(live.Methods, cc.Methods)
			live.RequestHeaders = editInPlace(live.RequestHeaders, cc.RequestHeaders)
			live.ResponseHeaders = editInPlace(live.ResponseHeaders, cc.ResponseHeaders)
			live.Credentialed, live.MaxAgeInSeconds, live.ExtraConfig = cc.Credentialed, cc.MaxAgeInSeconds, cc.ExtraConfig
			if m.Reconfigure(&live) != nil {
				m = nil
			}
		}
	})
	if pan != "" || m == nil {
		return nil, installed, false
	}
	if route != 0 {
		c.hit("state_reached_via_history_route")
	}
	return m, installed, true
}

func (c02) Exec(plan any, c *Ctx) *Violation {
	observeUnknownAPI = false
	p := plan.(*C02Plan)
	mOff, cfgOff, ok1 := viaRoute(p.Routes[0], p.Cfg, p.Other, false, c)
	mOn, cfgOn, ok2 := viaRoute(p.Routes[1], p.Cfg, p.Other, true, c) // live state, set through the public API
	if !ok1 || !ok2 {
		c.hit("generator_rejected")
		return nil
	}
	srvOff, srvOn := newServer(mOff.Wrap), newServer(mOn.Wrap)
	if len(p.OuterVary) > 0 {
		srvOff.preset, srvOn.preset = []HV{{hVary, p.OuterVary}}, []HV{{hVary, p.OuterVary}}
		c.hit("outer_layer_set_vary")
	}
	lenientRef := false
	for _, in := range p.Intents {
		wantOff, whyOff := permits(cfgOff, in)
		wantOn, whyOn := permits(cfgOn, in)
		if in.Creds {
			c.hit("credentialed_intent")
		}
		if in.PNA {
			c.hit("pna_intent")
		}
		if contains(p.Cfg.RequestHeaders, "*") && containsFold(in.Headers, "authorization") {
			c.hit("authorization_under_star")
		}
		for _, variant := range []struct {
			name  string
			srv   *mwServer
			alts  []Alteration
			debug bool
		}{
			{"debug=off", srvOff, nil, false},
			{"debug=on", srvOn, nil, true},
			{"debug=off+altered", srvOff, p.Alts, false},
			{"debug=on+altered", srvOn, p.Alts, true},
		} {
			if variant.alts == nil && variant.name != "debug=off" && variant.name != "debug=on" {
				continue
			}
			want, why := wantOff, whyOff
			if variant.debug {
				want, why = wantOn, whyOn
			}
			var trace []string
			v := browserFetch(variant.srv, in, variant.alts, c, &trace)
			if p.Lenient {
				// an undocumented (newly accepted) configuration: the first variant's verdict is the
				// reference for the others
				if variant.name == "debug=off" {
					lenientRef = v.OK
				}
				want, why = lenientRef, "the verdict of the same intent with debug off and no alteration (a configuration form the documentation prohibits: self-consistency only)"
				c.hit("lenient_configuration_form_accepted_by_this_tree")
			}
			c.logf("%s intent=%+v -> ok=%v stage=%s %s (permits=%v %s)", variant.name, in, v.OK, v.Stage, v.Why, want, why)
			if v.Stage == "panic" {
				return &Violation{Class: "panic", Key: "serve", Detail: fmt.Sprintf("cfg=%s intent=%+v: %s", p.Cfg, in, v.Why)}
			}
			if v.Stage != "" || v.OK {
				c.Nontrivial = c.Nontrivial || len(trace) > 1 || v.Stage == "preflight"
			}
			switch {
			case v.OK:
				c.hit("verdict_success")
			case v.Stage == "preflight":
				c.hit("verdict_fail_preflight")
				if variant.debug {
					c.hit("debug_on_failing_preflight")
				}
			default:
				c.hit("verdict_fail_actual")
			}
			if v.OK != want {
				cls := "browser-succeeds-but-config-forbids"
				if want {
					cls = "browser-fails-but-config-permits"
				}
				if len(variant.alts) > 0 {
					cls += "+altered"
				}
				return &Violation{Class: cls, Key: variant.name, Detail: fmt.Sprintf("cfg=%s %s intent=%+v alterations=%+v: browser verdict ok=%v (%s %s) but the configuration says permitted=%v (%s); trace: %s",
					p.Cfg, variant.name, in, variant.alts, v.OK, v.Stage, v.Why, want, why, strings.Join(trace, " || "))}
			}
		}
	}
	// ---- two tabs: the response to intent A's actual request is serialised late (its
	// handler writes nothing, so net/http writes the head only when the chain has
	// returned), and in between the server answers intent B's. What the first
	// browser finally receives must be what the middleware left at return.
	if len(p.Intents) >= 2 {
		for _, w := range []struct {
			name string
			srv  *mwServer
		}{{"debug=off", srvOff}, {"debug=on", srvOn}} {
			a, b := p.Intents[0], p.Intents[1]
			qa := Req{Method: normalizeMethod(a.Method), H: []HV{{hOrigin, []string{a.Origin}}}, Host: hostOf(a)}
			qb := Req{Method: normalizeMethod(b.Method), H: []HV{{hOrigin, []string{b.Origin}}}, Host: hostOf(b)}
			rw, pan := w.srv.doLazy(qa)
			if pan != "" {
				return &Violation{Class: "panic", Key: "serve", Detail: fmt.Sprintf("cfg=%s %s: %s", p.Cfg, qa, pan)}
			}
			early := headerFP(rw.h)
			okEarly, _ := corsCheck(a, early)
			w.srv.do(qb)
			w.srv.doLazy(qb)
			late := headerFP(rw.h)
			okLate, why := corsCheck(a, late)
			c.hit("late_serialisation_after_other_traffic")
			if early != late {
				return &Violation{Class: "response-changed-after-return", Key: w.name, Detail: fmt.Sprintf("cfg=%s %s: the response to %s was %s when the middleware returned and %s after the server had answered %s (CORS check of the first browser: %v -> %v %s)",
					p.Cfg, w.name, qa, early, late, qb, okEarly, okLate, why)}
			}
		}
	}
	// ---- the world of the caching browser: ONE browser with a CORS-preflight cache runs
	// the intents in order on a simulated clock; what an earlier preflight response
	// listed decides whether a later request is preflighted at all. The verdict of
	// every intent must still be what the configuration means.
	if len(p.Gaps) > 0 && !p.Lenient {
		for _, w := range []struct {
			name  string
			srv   *mwServer
			cfg   Cfg
			debug bool
		}{{"caching browser, debug=off", srvOff, cfgOff, false}, {"caching browser, debug=on", srvOn, cfgOn, true}} {
			pc := &preflightCache{}
			var trace []string
			for i, in := range p.Intents {
				pc.now += p.Gaps[i%len(p.Gaps)]
				pc.cap = []int{600, 7200, 7200, 86400}[in.UA%4] // WebKit, Chromium, Chromium, Gecko
				want, why := permits(w.cfg, in)
				v := browserFetchCached(w.srv, in, nil, c, &trace, pc)
				c.logf("%s t=%ds intent=%+v -> ok=%v stage=%s (permits=%v)", w.name, pc.now, in, v.OK, v.Stage, want)
				if v.Stage == "panic" {
					return &Violation{Class: "panic", Key: "serve", Detail: fmt.Sprintf("cfg=%s intent=%+v: %s", p.Cfg, in, v.Why)}
				}
				if v.OK != want {
					cls := "browser-succeeds-but-config-forbids+preflight-cache"
					if want {
						cls = "browser-fails-but-config-permits+preflight-cache"
					}
					return &Violation{Class: cls, Key: w.name, Detail: fmt.Sprintf("cfg=%s %s, intent #%d %+v at t=%ds: browser verdict ok=%v (%s %s) but the configuration says permitted=%v (%s); trace of this browser: %s",
						p.Cfg, w.name, i, in, pc.now, v.OK, v.Stage, v.Why, want, why, strings.Join(trace, " || "))}
				}
			}
		}
	}
	// ---- policy change: both middlewares are switched to the OTHER configuration (debug
	// mode stays as it is) and every intent is run once more. What the first configuration
	// allowed a moment ago is of no consequence: the verdict is what the other one means.
	if p.Switch && p.Other != nil && !p.Lenient {
		oc1, oc2 := p.Other.Config(), p.Other.Config()
		var e1, e2 error
		if pan := catch(func() { e1, e2 = reconfN(mOff, &oc1), reconfN(mOn, &oc2) }); pan != "" {
			return &Violation{Class: "panic", Key: "switch", Detail: fmt.Sprintf("Reconfigure(%s): %s", p.Other, pan)}
		}
		if e1 != nil || e2 != nil {
			return nil
		}
		c.hit("policy_switched_under_open_pages")
		for _, in := range p.Intents {
			want, why := permits(*p.Other, in)
			for _, w := range []struct {
				name string
				srv  *mwServer
			}{{"debug=off", srvOff}, {"debug=on", srvOn}} {
				var trace []string
				v := browserFetch(w.srv, in, nil, c, &trace)
				c.logf("after the switch, %s intent=%+v -> ok=%v stage=%s (permits=%v)", w.name, in, v.OK, v.Stage, want)
				if v.Stage == "panic" {
					return &Violation{Class: "panic", Key: "serve", Detail: fmt.Sprintf("cfg=%s intent=%+v: %s", p.Other, in, v.Why)}
				}
				if v.OK != want {
					cls := "browser-succeeds-but-config-forbids"
					if want {
						cls = "browser-fails-but-config-permits"
					}
					return &Violation{Class: cls, Key: w.name + " after switch", Detail: fmt.Sprintf("the middleware served cfg=%s, was then reconfigured to cfg=%s; %s intent=%+v: browser verdict ok=%v (%s %s) but the current configuration says permitted=%v (%s); trace: %s",
						p.Cfg, p.Other, w.name, in, v.OK, v.Stage, v.Why, want, why, strings.Join(trace, " || "))}
				}
			}
		}
	}
	return nil
}

func (c02) Shrink(plan any) []any {
	p := plan.(*C02Plan)
	var out []any
	for i := range p.Intents {
		if len(p.Intents) > 1 {
			q := *p
			q.Intents = []Intent{p.Intents[i]}
			out = append(out, &q)
		}
	}
	for i := range p.Alts {
		q := *p
		q.Alts = append(append([]Alteration{}, p.Alts[:i]...), p.Alts[i+1:]...)
		out = append(out, &q)
	}
	for i, in := range p.Intents {
		for j := range in.Headers {
			q := *p
			q.Intents = append([]Intent{}, p.Intents...)
			d := in
			d.Headers = append(append([]string{}, in.Headers[:j]...), in.Headers[j+1:]...)
			q.Intents[i] = d
			out = append(out, &q)
		}
		if in.Creds {
			q := *p
			q.Intents = append([]Intent{}, p.Intents...)
			q.Intents[i].Creds = false
			out = append(out, &q)
		}
		if in.PNA {
			q := *p
			q.Intents = append([]Intent{}, p.Intents...)
			q.Intents[i].PNA = false
			out = append(out, &q)
		}
		if in.UA != 0 || in.SameHost {
			q := *p
			q.Intents = append([]Intent{}, p.Intents...)
			q.Intents[i].UA, q.Intents[i].SameHost = 0, false
			out = append(out, &q)
		}
		if in.Method != "GET" {
			q := *p
			q.Intents = append([]Intent{}, p.Intents...)
			q.Intents[i].Method = "GET"
			out = append(out, &q)
		}
	}
	if p.Switch {
		q := *p
		q.Switch = false
		out = append(out, &q)
	}
	if len(p.OuterVary) > 0 {
		q := *p
		q.OuterVary = nil
		out = append(out, &q)
		if len(p.OuterVary) > 1 {
			q2 := *p
			q2.OuterVary = p.OuterVary[:1]
			out = append(out, &q2)
		}
	}
	if p.Other != nil {
		q := *p
		q.Other, q.Routes, q.Switch = nil, [2]int{}, false
		out = append(out, &q)
		for i := range p.Routes {
			if p.Routes[i] != 0 {
				q := *p
				q.Routes[i] = 0
				out = append(out, &q)
			}
			if w := p.Routes[i] - 6; w >= 0 { // a shorter walk: drop its last steps
				for _, mod := range []int{3, 15, 75, 375} {
					if w%mod != w {
						q := *p
						q.Routes[i] = 6 + w%mod
						out = append(out, &q)
					}
				}
			}
		}
	}
	for _, sc := range shrinkCfg(p.Cfg) {
		q := *p
		q.Cfg = sc
		out = append(out, &q)
	}
	return out
}
