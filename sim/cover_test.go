package main

import (
	"os"
	"testing"
)

// TestCoverage drives every (non-concsim) engine for a few thousand runs so
// that `go test -coverpkg=github.com/jub0bs/cors/... -coverprofile=...` shows
// which statements of the library the simulated worlds never reach.
func TestCoverage(t *testing.T) {
	if os.Getenv("VERIF_COVERAGE") == "" {
		t.Skip("set VERIF_COVERAGE=1")
	}
	for _, id := range []string{"C02", "C06", "C08", "C09", "C10", "C11", "C12", "C19"} {
		e := engines[id]
		for i := 0; i < 300; i++ {
			p := e.Gen(newR(99, uint64(i)), "quick")
			if v := e.Exec(p, newCtx(false)); v != nil {
				t.Fatalf("%s run %d: %s %s", id, i, v.Class, v.Detail)
			}
		}
	}
}
