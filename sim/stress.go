package main

// stress.go — "simcheck stress": the data-race companion of the C07 check.
// The UNINSTRUMENTED tree, this binary built with -race, free-running
// goroutines issuing requests and Reconfigure/SetDebug/Config calls on one
// shared Middleware, operator calls also issued re-entrantly from inside
// Header(), WriteHeader() and the wrapped handler. It is NOT
// schedule-controlled: it observes real executions, and its verdict (a
// happens-before violation reported by the race runtime; GORACE="halt_on_error=1
// exitcode=66") depends only on both accesses executing, which the workload
// guarantees. Configurations and requests come from the same seeded generators
// as the simulator; every round uses a fresh set.
//
// Cheap semantic check on the side: every response must equal the response of
// SOME single (configuration, debug) state of the round (computed sequentially
// beforehand), every Config() value the normal form of one configuration.

import (
	"encoding/json"
	"fmt"
	"math/rand/v2"
	"net/http"
	"os"
	"strings"
	"sync"
	"sync/atomic"
	"time"

	"github.com/jub0bs/cors"
)

type stressWriter struct {
	h            http.Header
	status       int
	body         []byte
	hook         func(string)
	snap         string
	snapOK       bool
	outerAppends bool
}

func (w *stressWriter) Header() http.Header {
	if w.hook != nil {
		w.hook("header")
	}
	return w.h
}
func (w *stressWriter) WriteHeader(s int) {
	if w.hook != nil {
		w.hook("writeheader")
	}
	if w.status == 0 {
		w.status, w.snap, w.snapOK = s, headerFP(w.h), true
		if w.outerAppends { // see recWriter.outerAppends: after the snapshot, so the judged response is unchanged
			for k := range w.h {
				w.h.Add(k, "appended-by-outer-layer")
			}
		}
	}
}
func (w *stressWriter) Write(b []byte) (int, error) {
	if w.status == 0 {
		w.status, w.snap, w.snapOK = 200, headerFP(w.h), true
	}
	w.body = append(w.body, b...)
	return len(b), nil
}

// stressHandler does what an ordinary application handler does: reads the
// request headers, looks at the response headers, writes a body.
type stressHandler struct {
	hook  func(string)
	quiet bool // sets a header of its own, writes nothing: the head is serialised after the chain has returned (fault F11)
}

func (h stressHandler) ServeHTTP(w http.ResponseWriter, r *http.Request) {
	if h.quiet {
		w.Header().Add("Vary", "Accept-Encoding")
		w.Header().Set("X-Handler", "quiet")
		return
	}
	n := 0
	for _, vs := range r.Header {
		for _, v := range vs {
			n += len(v)
		}
	}
	for _, vs := range w.Header() {
		for i, v := range vs {
			n += len(v)
			// ... and rewrites its OWN response's header values in place (same bytes):
			// legitimate for a handler, and a data race with Config()/other requests
			// exactly when the middleware installed memory it shares with anybody else
			vs[i] = strings.Clone(v)
		}
	}
	if h.hook != nil {
		h.hook("handler")
	}
	w.WriteHeader(200)
	w.Write([]byte("ok"))
}

func stressServe(h http.Handler, q Req, hook func(string)) (out string, pan string) {
	defer func() {
		if p := recover(); p != nil {
			pan = fmt.Sprint(p)
		}
	}()
	w := &stressWriter{h: http.Header{}, hook: hook, outerAppends: q.Shape%nShapes == 9}
	h.ServeHTTP(w, q.build())
	fp := w.snap
	if !w.snapOK {
		fp = headerFP(w.h)
	}
	return fmt.Sprintf("%d %s %q", w.status, fp, w.body), ""
}

// stressCmd runs the stress under a watchdog: free-running goroutines that
// never finish (a lock held across a callback and re-acquired re-entrantly, a
// lost wake-up) are a violation of "you can safely reconfigure a middleware
// even as it's concurrently processing requests", not a reason to hang.
func stressCmd(dur time.Duration, goroutines int, seed uint64, outFile string) int {
	done := make(chan int, 1)
	go func() { done <- stressRun(dur, goroutines, seed, outFile) }()
	grace := 45 * time.Second
	select {
	case rc := <-done:
		return rc
	case <-time.After(dur + grace):
		msg := fmt.Sprintf("DEADLOCK under real concurrency: the stress did not finish %v after its %v budget (goroutines stuck in the middleware; typical cause: a lock held while calling the ResponseWriter or the wrapped handler, which re-enter Reconfigure/SetDebug)", grace, dur)
		b, _ := json.MarshalIndent(map[string]any{"first_mismatch": msg, "responses_matching_no_state": 1, "seed": seed, "duration_s": dur.Seconds(), "goroutines": goroutines}, "", " ")
		if outFile != "" {
			os.WriteFile(outFile, b, 0o644)
		}
		fmt.Println(string(b))
		return 1
	}
}

func stressRun(dur time.Duration, goroutines int, seed uint64, outFile string) int {
	observeUnknownAPI = true
	var nReq, nOp, nReent, bad, rounds, nLate atomic.Int64
	var firstBad atomic.Value
	fail := func(format string, a ...any) {
		bad.Add(1)
		firstBad.CompareAndSwap(nil, fmt.Sprintf(format, a...))
	}
	deadline := time.Now().Add(dur)
	roundLen := 700 * time.Millisecond
	for round := uint64(0); time.Now().Before(deadline) && bad.Load() == 0; round++ {
		rounds.Add(1)
		r := newR(seed, round)
		// 3..4 accepted configurations, one of them long
		var cfgs []Cfg
		for len(cfgs) < 4 {
			c := genCfg(r)
			if _, err, _ := newMW(c); err == nil {
				cfgs = append(cfgs, c)
			}
		}
		if sz, ok := dict.sizes.pick(r, 0.15); ok && sz > 100 {
			padOriginsTo(cfgs, sz) // a mined size threshold applies to every configuration of the round
		}
		invalid := plantAll(cfgs[0], genPlanted(r, 2))
		if _, err, _ := newMW(invalid); err == nil {
			invalid = Cfg{} // accepted sequentially too (C04/C08 territory): use the empty configuration, which has no origins
		}
		var reqs []Req
		for _, c := range cfgs {
			s := probeSuite(c)
			for i := 0; i < 40; i++ {
				reqs = append(reqs, s[r.Intn(len(s))])
			}
		}
		adm := make([]map[string]bool, len(reqs))
		plain := stressHandler{}
		pass := zeroMW().Wrap(plain)
		for i, q := range reqs {
			o, _ := stressServe(pass, q, nil)
			adm[i] = map[string]bool{o: true}
		}
		admCfg := map[string]bool{"nil": true}
		for _, c := range cfgs {
			for _, dbg := range []bool{false, true} {
				m, _, _ := newMW(c)
				m.SetDebug(dbg)
				h := m.Wrap(plain)
				for i, q := range reqs {
					o, _ := stressServe(h, q, nil)
					adm[i][o] = true
				}
				admCfg[cfgKeyOf(m.Config())] = true
				// Reconfigure(Config()) is one of the operator calls: the first round trip
				// may legitimately collapse redundant patterns (C06), so the normal form
				// after a round trip is admissible too (it is a fixpoint from then on)
				if m2, err := mkMW(*m.Config()); err == nil {
					admCfg[cfgKeyOf(m2.Config())] = true
				}
			}
		}
		m, _, _ := newMW(cfgs[0])
		longLivedH := m.Wrap(stressHandler{})
		operator := func(rr *rand.Rand) {
			nOp.Add(1)
			switch rr.IntN(8) {
			case 0, 1:
				cc := cfgs[rr.IntN(len(cfgs))].Config()
				if err := m.Reconfigure(&cc); err != nil {
					fail("valid Reconfigure failed: %v", err)
				}
			case 2:
				m.Reconfigure(nil)
			case 3:
				cc := invalid.Config()
				if m.Reconfigure(&cc) == nil {
					fail("invalid configuration accepted: %s", invalid)
				}
			case 4:
				m.SetDebug(rr.IntN(2) == 0)
			case 5, 6:
				if k := cfgKeyOf(m.Config()); !admCfg[k] {
					fail("Config() matches no configuration of the round: %s", k)
				}
			case 7:
				m.Reconfigure(m.Config()) // whether Config() is re-accepted is C06's business, not judged here
			}
		}
		stop := time.Now().Add(roundLen)
		var wg sync.WaitGroup
		for g := 0; g < goroutines; g++ {
			wg.Add(1)
			go func(g int) {
				defer wg.Done()
				rr := rand.New(rand.NewPCG(seed^0x5eed, round<<8|uint64(g)))
				isOperator := g%8 >= 5
				// F11 under real concurrency: heads that are still to be serialised while this
				// and other goroutines go on serving (what they reference must stay put; the
				// race detector sees a pooled slice being rewritten underneath)
				type lateHead struct {
					h  http.Header
					fp string
					q  Req
				}
				var late []lateHead
				for i := 0; time.Now().Before(stop); i++ {
					if len(late) > 3 {
						lh := late[0]
						late = late[1:]
						if now := headerFP(lh.h); now != lh.fp {
							fail("the head of the response to %s (handler wrote nothing) was %s when the middleware returned and is %s a few requests later", lh.q, lh.fp, now)
						}
					}
					if isOperator {
						func() {
							defer func() {
								if p := recover(); p != nil {
									fail("PANIC in an operator call under concurrency: %v", p)
								}
							}()
							operator(rr)
						}()
						continue
					}
					qi := rr.IntN(len(reqs))
					if rr.IntN(12) == 0 {
						w := &stressWriter{h: http.Header{}}
						func() {
							defer func() {
								if p := recover(); p != nil {
									fail("PANIC under concurrency (quiet handler): %v", p)
								}
							}()
							m.Wrap(stressHandler{quiet: true}).ServeHTTP(w, reqs[qi].build())
						}()
						late = append(late, lateHead{w.h, headerFP(w.h), reqs[qi]})
						nLate.Add(1)
						continue
					}
					var hook func(string)
					if rr.IntN(10) == 0 {
						where := []string{"header", "writeheader", "handler"}[rr.IntN(3)]
						done := false
						hook = func(at string) {
							if at == where && !done {
								done = true
								nReent.Add(1)
								operator(rr)
							}
						}
					}
					var h http.Handler
					if hook == nil && i%2 == 0 {
						h = longLivedH
					} else {
						h = m.Wrap(stressHandler{hook: hook})
					}
					got, pan := stressServe(h, reqs[qi], hook)
					nReq.Add(1)
					if pan != "" {
						fail("PANIC under concurrency (the sequential code never panics): %s -> %s", reqs[qi], pan)
					} else if !adm[qi][got] {
						fail("response matches no single (configuration, debug) state of the round: %s -> %s (configurations: %v)", reqs[qi], got, cfgs)
					}
				}
			}(g)
		}
		wg.Wait()
	}
	stats := map[string]any{"requests": nReq.Load(), "operator_calls": nOp.Load(), "reentrant_operator_calls": nReent.Load(), "rounds_with_fresh_configurations": rounds.Load(), "heads_serialised_late_F11": nLate.Load(),
		"goroutines": goroutines, "duration_s": dur.Seconds(), "seed": seed, "responses_matching_no_state": bad.Load(), "race_detector": "on (go build -race), none reported"}
	if fb := firstBad.Load(); fb != nil {
		stats["first_mismatch"] = fb
	}
	b, _ := json.MarshalIndent(stats, "", " ")
	if outFile != "" {
		os.WriteFile(outFile, b, 0o644)
	}
	fmt.Println(string(b))
	if bad.Load() > 0 {
		return 1
	}
	return 0
}

func cfgKeyOf(c *cors.Config) string {
	if c == nil {
		return "nil"
	}
	return fromConfig(c).String()
}
