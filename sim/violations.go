package main

// violations.go: fault F1 — the catalogue of unambiguously documented
// prohibitions that can be planted into an otherwise valid configuration.
// Every entry is a literal example or a direct consequence of a sentence of
// the Config documentation ("prohibited").

import "strings"

// Planted is one planted violation: a kind index and an argument selector.
type Planted struct {
	Kind int `json:"kind"`
	Arg  int `json:"arg"`
	Pos  int `json:"pos"`
}

var badOrigins = []string{
	"null", "file:///somepath", "https://example.com:0", "https://example.com:65536", "https://example.com:443",
	"http://example.com:80", "https://www.résumé.com", "https://example.com/path", "https://*example.com",
	"https://exa*mple.com", "HTTPS://example.com", " https://example.com", "https://user@example.com", "http://0xFF000000",
	"http://[0:0:0:0:0:0:0:0001]:9090", "https://example.com:01", "https://example.com?q", "https://example.com#f",
	"https://*.*.example.com", "http://*.127.0.0.1", "https://example.com:", "example.com", "https://",
	"http://[fe80::1%eth0]:8080", "http://[::ffff:1.2.3.4]", "https://*." + longLabels252, "https://" + longLabels252 + "x.toolong",
	"https://" + strings.Repeat("a", 64) + ".example.com", strings.Repeat("s", 65) + "://example.com",
	"https://\u212Aelvin.example.com", "http\u017f://example.com", "https://xn--f", "https://-foo.com", "https://foo-.com", "https://ab--cd.com", "https://*.xn--f.example.com:*",
	"https://a.example.com,https://b.example.com", "https://a.example.com https://b.example.com", "https://example.com/", "https://example.com, null",
}

// 252 bytes of legal labels: one byte more than a subdomain pattern's base may have
var longLabels252 = strings.Repeat("a", 63) + "." + strings.Repeat("b", 63) + "." + strings.Repeat("c", 63) + "." + strings.Repeat("d", 56) + ".com"
var badMethods = []string{"CONNECT", "TRACE", "TRACK", "connect", "GE T", "", "a/b", "tRaCe",
	// several values in one string, as other libraries' options accept them: not a token here
	"PUT,DELETE", "PUT, CONNECT, TRACE", "GET;POST", "GET,TRACE",
	// not ASCII: U+212A KELVIN SIGN and U+017F LONG S fold to k and s under Unicode case mapping
	"CHEC\u212A", "PUR\u017fE", "D\u00c9LETE"}
var badReqHdrs = []string{"X Foo", "", "Cookie", "Sec-Foo", "proxy-x", "Host", "Access-Control-Allow-Origin",
	"access-control-allow-headers", "Access-Control-Request-Headers", "Origin", "a:b", "Content-Length",
	"Access-Control-Request-Private-Network", "Access-Control-Allow-Private-Network", "access-control-request-private-network",
	"X-A,X-B", "X-A, Cookie", "Content-Type;X-B", "X-\u212Aey", "X-Re\u017fult", "X-\u00c9tat", "x-\u212a"}
var badResHdrs = []string{"Set-Cookie", "set-cookie2", "Origin", "a b", "", "Access-Control-Request-Method",
	"Access-Control-Allow-Methods", "Access-Control-Max-Age", "Access-Control-Allow-Private-Network", "Access-Control-Request-Private-Network", "X-A,X-B", "X-A, Set-Cookie", "X-\u212Aey", "X-Re\u017fult"}

// out of bounds - among them values that become legal again when truncated to 8, 16 or 32 bits
var badMaxAge = []int{-2, 86401, -100, 1 << 30, 1<<16 + 86400, -1 - 1<<16, 1<<32 + 5, 1<<32 - 1, -1 << 31, 1<<31 + 600}
var badStatus = []int{199, 300, 100, 404, -1, 1, 204 + 1<<8, 200 + 1<<16, 299 + 1<<16, 204 - 1<<16, 204 + 1<<32, 200 - 1<<8}

const nPlantKinds = 15

func insertAt(l []string, pos int, v string) []string {
	if len(l) == 0 {
		return []string{v}
	}
	pos = pos % (len(l) + 1)
	out := append([]string{}, l[:pos]...)
	out = append(out, v)
	return append(out, l[pos:]...)
}

// plant applies p to c and returns the (now invalid) configuration and a
// short description.
func plant(c Cfg, p Planted) (Cfg, string) {
	c = c.clone()
	a := p.Arg
	if a < 0 {
		a = -a
	}
	switch p.Kind % nPlantKinds {
	case 0:
		c.Origins = nil
		return c, "no origins"
	case 1:
		v := badOrigins[a%len(badOrigins)]
		c.Origins = insertAt(c.Origins, p.Pos, v)
		return c, "bad origin " + v
	case 2:
		c.Credentialed = true
		c.Origins = insertAt(c.Origins, p.Pos, "*")
		return c, "* origin with credentials"
	case 3:
		c.Credentialed = true
		c.TolInsecure = false
		// plain-http origins on public-looking domains; those of the dictionary (dict.go) first
		cands := []string{"http://example.com"}
		for _, hs := range [][]string{dict.hosts.novel, dict.hosts.all} {
			for _, h := range hs {
				if strings.Contains(h, ".") && !isIPHost(h) && !strings.HasSuffix(h, "localhost") && !strings.HasSuffix(h, ".") && len(cands) < 40 {
					cands = append(cands, "http://"+h, "http://*."+h, "http://sub."+h)
				}
			}
		}
		v := cands[a%len(cands)]
		c.Origins = insertAt(c.Origins, p.Pos, v)
		return c, "insecure origin with credentials " + v
	case 4:
		c.PNA, c.PNANoCors = true, true
		return c, "both PNA modes"
	case 5:
		v := badMethods[a%len(badMethods)]
		c.Methods = insertAt(c.Methods, p.Pos, v)
		return c, "bad method " + v
	case 6:
		v := badReqHdrs[a%len(badReqHdrs)]
		c.RequestHeaders = insertAt(c.RequestHeaders, p.Pos, v)
		return c, "bad request header " + v
	case 7:
		if a%3 == 0 {
			c.Credentialed = true
			c.ResponseHeaders = insertAt(c.ResponseHeaders, p.Pos, "*")
			// keep the rest valid under credentials
			return c, "* response header with credentials"
		}
		v := badResHdrs[a%len(badResHdrs)]
		c.ResponseHeaders = insertAt(c.ResponseHeaders, p.Pos, v)
		return c, "bad response header " + v
	case 8:
		cands := append(append(append([]int{}, badMaxAge...), dict.badMaxAge.novel...), dict.badMaxAge.all...)
		c.MaxAge = cands[a%len(cands)]
		return c, "max-age out of bounds"
	case 9:
		cands := append(append(append([]int{}, badStatus...), dict.badStatus.novel...), dict.badStatus.all...)
		c.Status = cands[a%len(cands)]
		if c.Status == 0 {
			c.Status = 199 // 0 means "default"
		}
		return c, "status out of bounds"
	case 10:
		if a%2 == 0 {
			c.PNA = true
		} else {
			c.PNANoCors = true
		}
		c.Origins = insertAt(c.Origins, p.Pos, "*")
		return c, "* origin with PNA"
	case 12, 13, 14:
		// violations that touch NO list: a scalar is switched so that an origin the
		// configuration already has becomes incompatible. Only where such an origin exists;
		// otherwise the corresponding list-inserting violation is planted.
		insecure, pslWild := false, false
		for _, o := range c.Origins {
			if pp, ok := splitPattern(o); ok && o != "*" {
				if pp.Scheme == "http" && !isLoopbackish(pp.Host) && !isIPHost(pp.Host) {
					insecure = true
				}
				if pp.Wild && (pp.Host == "com" || pp.Host == "github.io" || pp.Host == "co.uk") {
					pslWild = true
				}
			}
		}
		switch {
		case p.Kind%nPlantKinds == 12 && insecure:
			c.Credentialed, c.TolInsecure = true, false
			var rh []string // keep the rest valid under credentials
			for _, h := range c.ResponseHeaders {
				if h != "*" {
					rh = append(rh, h)
				}
			}
			c.ResponseHeaders = rh
			return c, "credentials switched on over an insecure origin that is already listed"
		case p.Kind%nPlantKinds == 13 && insecure && !c.PNANoCors:
			c.PNA, c.TolInsecure = true, false
			return c, "private-network access switched on over an insecure origin that is already listed"
		case p.Kind%nPlantKinds == 14 && pslWild:
			c.TolPSL = false
			return c, "public-suffix toleration switched off under a listed public-suffix pattern"
		}
		q := p
		q.Kind = []int{3, 3, 11}[p.Kind%nPlantKinds-12]
		return plant(c, q)
	default:
		c.TolPSL = false
		v := []string{"https://*.com", "https://*.github.io", "https://*.co.uk:*", "https://*.com.",
			// public suffixes that exist only through a wildcard rule (*.bd, *.ck, *.np, *.kawasaki.jp) or in the private section
			"https://*.bd", "https://*.ck", "https://*.np:*", "https://*.foo.kawasaki.jp", "https://*.np.:*", "https://*.blogspot.com"}[a%10]
		c.Origins = insertAt(c.Origins, p.Pos, v)
		return c, "subdomains of public suffix " + v
	}
}

func genPlanted(r *R, n int) []Planted {
	var ps []Planted
	for i := 0; i < n; i++ {
		ps = append(ps, Planted{Kind: r.Intn(nPlantKinds), Arg: r.Intn(64), Pos: r.Intn(8)})
	}
	return ps
}

func plantAll(c Cfg, ps []Planted) Cfg {
	for _, p := range ps {
		c, _ = plant(c, p)
	}
	return c
}
