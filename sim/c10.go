package main

// c10.go — cachesim: clients -> Vary-honouring shared cache -> real
// middleware. Faults: cache interposition (F7: a second client is answered
// from the entry a first client created) and duplicated requests (F6). On
// every cache hit the request is also forwarded to the real middleware
// (shadow fetch); what the cache hands out must equal what the middleware
// would have answered.

import (
	"encoding/json"
	"fmt"
	"github.com/jub0bs/cors"
	"net/http"
	"strings"
	"time"
)

type C10Plan struct {
	Cfg        Cfg      `json:"cfg"`
	Debug      bool     `json:"debug,omitempty"`
	PresetVary []string `json:"preset_vary,omitempty"` // set by an outer middleware before ours runs
	Reqs       []Req    `json:"reqs"`                  // arrival order
	// Edits[i] != "": while serving request i the wrapped application handler
	// edits the response-header slices it can see IN PLACE (fault F4): such a
	// response is the handler's own business — it is neither stored nor judged —
	// but it must not change what LATER requests get.
	Edits []string `json:"edits,omitempty"` // "" | scribble | delete_origin | zero
	// Prior != nil: the middleware was first configured with Prior, served PriorReqs, and was
	// then reconfigured to Cfg (possibly through passthrough); the cache world starts after that
	// (an operator flushes the cache when the policy changes). "Every configuration" is every
	// configuration however the middleware got there.
	Prior     *Cfg  `json:"prior,omitempty"`
	PriorReqs []Req `json:"prior_reqs,omitempty"`
	ViaNil    bool  `json:"via_nil,omitempty"`
	ViaZero   bool  `json:"via_zero,omitempty"` // no prior configuration: a zero-value middleware, reconfigured once
}

type c10 struct{}

func init() { register(c10{}) }

func (c10) ID() string    { return "C10" }
func (c10) Level() string { return "exploration" }
func (c10) Rule() string {
	return "one case = one accepted configuration (in a quarter of the cases reached from a prior configuration that served 1..4 requests, possibly through passthrough) + debug mode + optional outer Vary value + 4..24 requests in a seeded arrival order: populating requests from the probe suite and victims derived from them by mutating a seeded subset of {Origin, ACRM, ACRH, ACRPN, unrelated header} (change / remove / add / multi-value), plus exact duplicates; an outer party may have set Vary values (incl. names containing the middleware's own Vary names); in a third of the runs the application handler edits response-header slices in place on a few early requests (those responses are neither stored nor judged); the simulated cache stores every response and answers later requests that agree on the stored response's Vary-listed headers; distinct = distinct plan hash; non-trivial = at least one cache hit between non-identical requests"
}
func (c10) Budget(tier string) (int, time.Duration) {
	if tier == "thorough" {
		return 8_000_000, 10 * time.Minute
	}
	return 400_000, 40 * time.Second
}
func (c10) Assumptions() []string {
	return []string{
		"cache model: stores every response including OPTIONS; primary key (method, URL); secondary key = all Vary field lines of the stored response, comma-split, OWS-trimmed, case-insensitive names; two requests agree on a header iff their sequences of field-line values are byte-identical (strictest reading of RFC 9111 section 4.1); Vary: * never matches",
		"the wrapped handler is constant, so every header of a response is either pre-set by the outer party or contributed by the middleware",
		"requests are built the way net/http delivers them (canonical keys)",
	}
}
func (c10) Parties() map[string]string {
	return map[string]string{"cors.Middleware": "real", "shared cache": "model (RFC 9111 4.1 secondary keys)", "clients (attacker/victim)": "stub", "outer middleware setting Vary": "stub", "wrapped handler": "stub (constant)"}
}
func (c10) FaultKinds() []string {
	return []string{"F7_cache_hit_other_request", "F6_duplicate_request_hit", "F4_handler_edits_vary_in_place"}
}
func (c10) Probes() []string {
	return []string{"hit_differs_in_origin", "hit_differs_in_preflight_headers", "hit_differs_in_unrelated_header", "preflight_stored", "preset_vary_checked", "miss_due_to_vary", "state_reached_via_prior_configuration"}
}

func mutateReq(r *R, q Req, other []Req) Req {
	names := []string{hOrigin, hACRM, hACRH, hACRPN, hOrigin, hACRM, hACRH, hACRPN, "X-Unrelated", "Cookie", "Sec-Fetch-Mode", "Sec-Fetch-Site", "Referer",
		"Authorization", "Content-Type", "Access-Control-Request-Local-Network", "X-Forwarded-For", "Accept", "User-Agent", "Access-Control-Request-Credentials"}
	if r.P(0.1) {
		q.Shape = r.Intn(nShapes) // same URL for most shapes: a cache does not key on protocol version, TLS or peer address
	}
	if nov := dict.tokens.novel; len(nov) > 0 && r.P(0.12) {
		// literals that are NEW in the tree under test, in combination: up to three of them as
		// header names, each with a new literal (or "true"/"1") as its value - a test the tree
		// makes on two or three request headers at once is met by no single mutation
		for i, k := 0, r.Range(2, 3); i < k; i++ {
			name := http.CanonicalHeaderKey(pick(r, nov))
			val := pick(r, []string{"true", "1"})
			if len(dict.any.novel) > 0 && r.P(0.8) {
				val = pick(r, dict.any.novel)
			}
			q = q.with(name, val)
		}
		return q
	}
	n := r.Range(1, 2)
	for i := 0; i < n; i++ {
		k := pick(r, names)
		if t, ok := dict.tokens.pick(r, 0.12); ok {
			k = http.CanonicalHeaderKey(t) // a literal of the tree under test as a request-header name
		}
		switch r.Intn(5) {
		case 0:
			q = q.without(k)
		case 1: // take the value from another request of the run
			o := pick(r, other)
			if v, ok := o.get(k); ok {
				q = q.with(k, v...)
			} else {
				q = q.without(k)
			}
		case 2:
			vals := map[string][]string{hOrigin: {"https://evil.test", "https://example.com", "null"}, hACRM: {"PUT", "GET", "UNLISTED"},
				hACRH: {"x-foo", "authorization", "content-type,x-foo"}, hACRPN: {"true", "false"}, "X-Unrelated": {"1", "2"}, "Cookie": {"a=b"},
				"Sec-Fetch-Mode": {"no-cors", "cors", "navigate"}, "Sec-Fetch-Site": {"cross-site", "same-origin"}, "Referer": {"https://example.com/"},
				"Authorization": {"Bearer x"}, "Content-Type": {"application/json", "text/plain"}, "Access-Control-Request-Local-Network": {"true"},
				"X-Forwarded-For": {"10.0.0.1"}, "Accept": {"*/*"}, "User-Agent": {"curl/8"}, "Access-Control-Request-Credentials": {"true"}}[k]
			if len(vals) == 0 { // a mined name: the values an Origin may have are the interesting ones
				vals = []string{"https://evil.test", "https://example.com", "1", "true"}
				if o, ok := pick(r, other).get(hOrigin); ok && len(o) > 0 {
					vals = append(vals, o[0], o[0])
				}
			}
			v := pick(r, vals)
			if dv, ok := dict.any.pick(r, 0.15); ok {
				v = dv // a literal of the tree under test
			}
			q = q.with(k, v)
		case 3: // multi-valued
			if v, ok := q.get(k); ok && len(v) > 0 {
				q = q.with(k, append(append([]string{}, v...), "extra")...)
			} else {
				q = q.with(k, "x", "y")
			}
		case 4: // empty value (a zero-length value list cannot travel over the wire and is not generated here)
			q = q.with(k, "")
		}
	}
	return q
}

func (c10) Gen(r *R, tier string) any {
	allowHugeOriginLists = true
	observeUnknownAPI = false
	p := &C10Plan{Cfg: genCfg(r), Debug: r.P(0.4)}
	if r.P(0.4) {
		// what an outer middleware may have put there: unrelated names, names that
		// CONTAIN the middleware's own Vary names, case variants, the names themselves
		vocab := []string{"before", "Accept-Encoding", "Cookie", "Accept-Encoding, Cookie", "origin", "Origin", "ORIGIN",
			"X-Original-Host", "X-Forwarded-Origin", "X-Origin", "Origin-Agent-Cluster", "Sec-Fetch-Site", "X-Original-URL, Accept",
			"Access-Control-Request-Method", "access-control-request-headers", "X-Access-Control-Request-Headers",
			"Access-Control-Request-Private-Network", "Accept-Encoding, X-Original-Host", "X-Second"}
		for n := pick(r, []int{1, 1, 1, 2, 3}); n > 0; n-- {
			p.PresetVary = append(p.PresetVary, pick(r, vocab))
		}
	}
	if r.P(0.25) {
		pc := genCfg(r)
		if r.P(0.5) {
			pc = p.Cfg.clone()
			pc.Origins = genCfg(r).Origins // the same policy for other origins (e.g. discrete origins before, all origins now)
		}
		p.Prior, p.ViaNil = &pc, r.P(0.3)
		ps := probeSuite(pc)
		match, _ := originsFor(pc)
		for n := r.Range(1, 4); n > 0; n-- {
			q := ps[r.Intn(len(ps))]
			if len(match) > 0 && r.P(0.6) { // requests the prior configuration allows
				o := pick(r, match)
				q = pick(r, []Req{{Method: "GET", H: []HV{{hOrigin, []string{o}}}}, preflight(o, "GET", nil, false), {Method: "POST", H: []HV{{hOrigin, []string{o}}}}})
			}
			p.PriorReqs = append(p.PriorReqs, q)
		}
	}
	if p.Prior == nil {
		p.ViaZero = r.P(0.3)
	}
	suite := probeSuite(p.Cfg)
	if p.Prior != nil { // what the prior configuration allowed is asked for again under the new one
		for _, q := range p.PriorReqs {
			suite = append(suite, q, q)
		}
	}
	nPop := r.Range(2, 8)
	var pop []Req
	for i := 0; i < nPop; i++ {
		pop = append(pop, suite[r.Intn(len(suite))])
	}
	p.Reqs = append(p.Reqs, pop...)
	nVic := r.Range(2, 16)
	for i := 0; i < nVic; i++ {
		base := pick(r, pop)
		switch {
		case r.P(0.1):
			p.Reqs = append(p.Reqs, base) // duplicate
		case r.P(0.15): // same method, otherwise unrelated request of the suite
			for tries := 0; tries < 20; tries++ {
				o := suite[r.Intn(len(suite))]
				if o.Method == base.Method {
					p.Reqs = append(p.Reqs, o)
					break
				}
			}
		default:
			p.Reqs = append(p.Reqs, mutateReq(r, base, p.Reqs))
		}
	}
	// arrival order: keep most populating requests early, but shuffle some runs completely
	if r.P(0.3) {
		p.Reqs = shuffled(r, p.Reqs)
	}
	// in a third of the runs the application handler edits header slices in place on a few early requests
	if r.P(0.33) {
		p.Edits = make([]string, len(p.Reqs))
		for k := r.Range(1, 3); k > 0; k-- {
			p.Edits[r.Intn(max(1, len(p.Reqs)/2))] = pick(r, []string{"scribble", "delete_origin", "zero"})
		}
	}
	return p
}

func (c10) Decode(b []byte) (any, error) {
	var p C10Plan
	err := json.Unmarshal(b, &p)
	return &p, err
}

// editHandler is the application handler of the cachesim world: constant
// output, but on request it edits the header slices it can reach in place.
type editHandler struct {
	mode    *string
	invoked *int
	c       *Ctx
}

func (h editHandler) ServeHTTP(w http.ResponseWriter, _ *http.Request) {
	*h.invoked++
	if *h.mode != "" {
		rh := w.Header()
		if vs, ok := rh[hVary]; ok && len(vs) > 0 {
			h.c.hit("F4_handler_edits_vary_in_place")
		}
		for k, vs := range rh {
			switch *h.mode {
			case "scribble":
				for i := range vs[:cap(vs)] {
					vs[:cap(vs)][i] = "Scribbled"
				}
			case "zero":
				for i := range vs {
					vs[i] = ""
				}
			case "delete_origin": // what slices.DeleteFunc(h["Vary"], isOrigin) does: compact in place, zero the tail
				if k == hVary {
					n := 0
					for _, v := range vs {
						if !strings.EqualFold(v, "Origin") {
							vs[n] = v
							n++
						}
					}
					for i := n; i < len(vs); i++ {
						vs[i] = ""
					}
					rh[k] = vs[:n]
				}
			}
		}
	}
	w.WriteHeader(200)
	w.Write([]byte("ok"))
}

type cacheEntry struct {
	req  Req
	resp Resp
	vary []string // lower-case names; nil if Vary: *
	star bool
}

func varyNames(fp string) (names []string, star bool) {
	vs, _ := fpGet(fp, hVary)
	for _, line := range vs {
		for _, el := range strings.Split(line, ",") {
			el = strings.Trim(el, " \t")
			if el == "" {
				continue
			}
			if el == "*" {
				star = true
			}
			names = append(names, strings.ToLower(el))
		}
	}
	return
}

func reqVals(q Req, lname string) []string {
	for _, hv := range q.H {
		if strings.ToLower(hv.K) == lname {
			return hv.V
		}
	}
	return nil
}

func agree(a, b Req, names []string) bool {
	for _, n := range names {
		if !hvEqual(reqVals(a, n), reqVals(b, n)) {
			return false
		}
	}
	return true
}

func sameReq(a, b Req) bool { return a.String() == b.String() }

func (c10) Exec(plan any, c *Ctx) *Violation {
	observeUnknownAPI = false
	p := plan.(*C10Plan)
	var m *cors.Middleware
	if p.Prior != nil {
		var err error
		var pan any
		m, err, pan = newMW(*p.Prior)
		if err != nil || pan != nil {
			c.hit("generator_rejected")
			return nil
		}
		m.SetDebug(p.Debug)
		ps := newServer(m.Wrap)
		var rerr error
		if pn := catch(func() {
			for _, q := range p.PriorReqs {
				ps.do(q)
			}
			if p.ViaNil {
				reconfN(m, nil)
			}
			betweenSteps("the reconfiguration")
			cc := p.Cfg.Config()
			rerr = reconfN(m, &cc)
		}); pn != "" {
			return &Violation{Class: "panic", Key: "prior", Detail: "history before the cache world: " + pn}
		}
		if rerr != nil {
			c.hit("generator_rejected")
			return nil
		}
		c.hit("state_reached_via_prior_configuration")
	} else if p.ViaZero {
		m = zeroMW()
		cc := p.Cfg.Config()
		var rerr error
		if pn := catch(func() { rerr = m.Reconfigure(&cc) }); pn != "" || rerr != nil {
			c.hit("generator_rejected")
			return nil
		}
	} else {
		var err error
		var pan any
		m, err, pan = newMW(p.Cfg)
		if err != nil || pan != nil {
			c.hit("generator_rejected")
			return nil
		}
	}
	m.SetDebug(p.Debug)
	edit := ""
	invoked := 0
	hh := m.Wrap(editHandler{&edit, &invoked, c})
	srv := &mwServer{h: hh}
	var preset []HV
	if len(p.PresetVary) > 0 {
		preset = []HV{{hVary, p.PresetVary}}
	}
	var cache []cacheEntry
	for i, q := range p.Reqs {
		// origin fetch (on a hit: the shadow fetch)
		edit = ""
		if i < len(p.Edits) {
			edit = p.Edits[i]
		}
		resp := serveWith(srv.h, q, preset, &invoked)
		if edit != "" && resp.Handler > 0 {
			c.logf("#%d EDIT %s: handler edited response-header slices in place (%s); response neither stored nor judged", i, q, edit)
			continue
		}
		if resp.Panic != "" {
			return &Violation{Class: "panic", Key: "serve", Detail: q.String() + ": " + resp.Panic}
		}
		// pre-set Vary values preserved, in order, as a prefix
		if len(p.PresetVary) > 0 {
			c.hit("preset_vary_checked")
			vs, _ := fpGet(resp.Headers, hVary)
			if !hasPrefixVals(vs, p.PresetVary) {
				return &Violation{Class: "preset-vary-lost", Key: q.Method, Detail: fmt.Sprintf("cfg=%s debug=%v req=%s: outer Vary %q, response Vary %q", p.Cfg, p.Debug, q, p.PresetVary, vs)}
			}
		}
		hit := -1
		for j, e := range cache {
			if e.req.Method != q.Method || e.req.urlKey() != q.urlKey() || e.star {
				continue
			}
			if agree(e.req, q, e.vary) {
				hit = j
				break
			}
			c.hit("miss_due_to_vary")
		}
		if hit < 0 {
			names, star := varyNames(resp.Headers)
			cache = append(cache, cacheEntry{req: q, resp: resp, vary: names, star: star})
			if isPreflightReq(q) {
				c.hit("preflight_stored")
			}
			c.logf("#%d MISS %s -> stored, Vary=%v", i, q, names)
			continue
		}
		e := cache[hit]
		if sameReq(e.req, q) {
			c.hit("F6_duplicate_request_hit")
		} else {
			c.hit("F7_cache_hit_other_request")
			c.Nontrivial = true
			if !hvEqual(reqVals(e.req, "origin"), reqVals(q, "origin")) {
				c.hit("hit_differs_in_origin")
			}
			if !hvEqual(reqVals(e.req, "access-control-request-method"), reqVals(q, "access-control-request-method")) ||
				!hvEqual(reqVals(e.req, "access-control-request-headers"), reqVals(q, "access-control-request-headers")) ||
				!hvEqual(reqVals(e.req, "access-control-request-private-network"), reqVals(q, "access-control-request-private-network")) {
				c.hit("hit_differs_in_preflight_headers")
			}
			if e.req.without(hOrigin).without(hACRM).without(hACRH).without(hACRPN).String() != q.without(hOrigin).without(hACRM).without(hACRH).without(hACRPN).String() {
				c.hit("hit_differs_in_unrelated_header")
			}
		}
		c.logf("#%d HIT  %s <- entry of %s", i, q, e.req)
		if e.resp != resp {
			return &Violation{Class: "cache-serves-wrong-response", Key: q.Method,
				Detail: fmt.Sprintf("cfg=%s debug=%v: request %s agrees with stored request %s on Vary=%v, so a cache hands it %s, but the middleware answers it with %s", p.Cfg, p.Debug, q, e.req, e.vary, e.resp, resp)}
		}
	}
	return nil
}

func (c10) Shrink(plan any) []any {
	p := plan.(*C10Plan)
	var out []any
	for i := len(p.Reqs) - 1; i >= 0; i-- {
		q := *p
		q.Reqs = append(append([]Req{}, p.Reqs[:i]...), p.Reqs[i+1:]...)
		if i < len(p.Edits) {
			q.Edits = append(append([]string{}, p.Edits[:i]...), p.Edits[i+1:]...)
		}
		out = append(out, &q)
	}
	if p.Debug {
		q := *p
		q.Debug = false
		out = append(out, &q)
	}
	if p.Prior != nil {
		q := *p
		q.Prior, q.PriorReqs, q.ViaNil = nil, nil, false
		out = append(out, &q)
		for i := range p.PriorReqs {
			q := *p
			q.PriorReqs = append(append([]Req{}, p.PriorReqs[:i]...), p.PriorReqs[i+1:]...)
			out = append(out, &q)
		}
		if p.ViaNil {
			q := *p
			q.ViaNil = false
			out = append(out, &q)
		}
		for _, sc := range shrinkCfg(*p.Prior) {
			q := *p
			sc := sc
			q.Prior = &sc
			out = append(out, &q)
		}
	}
	for i, e := range p.Edits {
		if e != "" {
			q := *p
			q.Edits = append([]string{}, p.Edits...)
			q.Edits[i] = ""
			out = append(out, &q)
		}
	}
	if len(p.PresetVary) > 0 {
		q := *p
		q.PresetVary = nil
		out = append(out, &q)
		if len(p.PresetVary) > 1 {
			q2 := *p
			q2.PresetVary = p.PresetVary[:1]
			out = append(out, &q2)
		}
	}
	for i, rq := range p.Reqs {
		for j := range rq.H {
			q := *p
			q.Reqs = append([]Req{}, p.Reqs...)
			q.Reqs[i] = rq.without(rq.H[j].K)
			out = append(out, &q)
		}
	}
	for _, sc := range shrinkCfg(p.Cfg) {
		q := *p
		q.Cfg = sc
		out = append(out, &q)
	}
	return out
}
