// Package main is simcheck: deterministic simulation with fault injection for
// jub0bs/cors. See /verif/DESIGN.md.
//
// core.go: the pieces every engine shares — one PRNG per run derived from
// (VERIF_SEED, run index), explicit JSON plans, plan execution as a pure
// function of (plan, code), greedy plan minimisation, replay files, sharded
// runners and evidence files.
package main

import (
	"bytes"
	"crypto/sha256"
	"encoding/binary"
	"encoding/hex"
	"encoding/json"
	"fmt"
	"hash/fnv"
	"math/rand/v2"
	"os"
	"os/exec"
	"path/filepath"
	"runtime"
	"sort"
	"strconv"
	"strings"
	"sync"
	"time"
)

// ---------------------------------------------------------------- PRNG

// R is the single source of choice during plan generation. No draw ever
// happens while a plan executes.
type R struct {
	*rand.Rand
	Seed, Run uint64 // what this stream was derived from (engines may enumerate over Run)
}

func newR(seed uint64, run uint64) *R {
	return &R{rand.New(rand.NewPCG(seed, run*0x9E3779B97F4A7C15+0xD1B54A32D192ED03)), seed, run}
}

func (r *R) Intn(n int) int {
	if n <= 0 {
		return 0
	}
	return r.IntN(n)
}
func (r *R) Range(lo, hi int) int { return lo + r.Intn(hi-lo+1) } // inclusive
func (r *R) P(p float64) bool     { return r.Float64() < p }
func pick[T any](r *R, xs []T) T  { return xs[r.Intn(len(xs))] }
func subset[T any](r *R, xs []T, p float64) []T {
	var out []T
	for _, x := range xs {
		if r.P(p) {
			out = append(out, x)
		}
	}
	return out
}
func shuffled[T any](r *R, xs []T) []T {
	out := append([]T(nil), xs...)
	r.Shuffle(len(out), func(i, j int) { out[i], out[j] = out[j], out[i] })
	return out
}

// ---------------------------------------------------------------- engine API

// A Violation is what an oracle reports. Class is the violation class that
// minimisation must preserve; Key identifies the witness for known_findings.
type Violation struct {
	Class  string `json:"class"`
	Key    string `json:"key,omitempty"`
	Detail string `json:"detail"`
}

// Ctx collects what one plan execution did. Logging never draws and never
// reads a clock.
type Ctx struct {
	Log        []string
	Stats      map[string]int64 // fault kinds fired, probes, counters
	Steps      int64            // logical steps ("simulated time")
	Nontrivial bool             // by the engine's stated rule
	Sig        uint64           // optional: signature of the interleaving/state sequence reached (0 = none)
	keepLog    bool
}

func (c *Ctx) logf(format string, a ...any) {
	c.Steps++
	if c.keepLog {
		c.Log = append(c.Log, fmt.Sprintf(format, a...))
	}
}
func (c *Ctx) hit(k string)          { c.Stats[k]++ }
func (c *Ctx) add(k string, n int64) { c.Stats[k] += n }

func newCtx(keepLog bool) *Ctx { return &Ctx{Stats: map[string]int64{}, keepLog: keepLog} }

// An Engine decides one property.
type Engine interface {
	ID() string
	Level() string // evidence level
	Rule() string  // how cases are generated, what makes one distinct and non-trivial
	// Gen draws a plan. It is the only place where the PRNG is used.
	Gen(r *R, tier string) any
	// Exec executes a plan against the real code: a pure function of the plan.
	Exec(plan any, c *Ctx) *Violation
	// Shrink proposes strictly simpler plans.
	Shrink(plan any) []any
	Decode(b []byte) (any, error)
	Budget(tier string) (runs int, wall time.Duration)
	Assumptions() []string
	Parties() map[string]string // component -> real | stub | model
	FaultKinds() []string       // stats keys that count injected faults (must be > 0 after a batch)
	Probes() []string           // stats keys that must be > 0 after a batch (reach probes)
}

var engines = map[string]Engine{}

func register(e Engine) { engines[e.ID()] = e }

// ---------------------------------------------------------------- hashing helpers

func planJSON(p any) []byte {
	b, err := json.Marshal(p)
	if err != nil {
		fatal2("marshal plan: %v", err)
	}
	return b
}
func hash64(b []byte) uint64 { h := fnv.New64a(); h.Write(b); return h.Sum64() }
func logHash(log []string) string {
	h := sha256.New()
	for _, l := range log {
		h.Write([]byte(l))
		h.Write([]byte{'\n'})
	}
	return hex.EncodeToString(h.Sum(nil))[:16]
}

func fatal2(format string, a ...any) {
	fmt.Fprintf(os.Stderr, "simcheck: HARNESS ERROR: "+format+"\n", a...)
	os.Exit(2)
}

// safeExec runs e.Exec and turns a panic that escapes the engine into a
// harness error (engines wrap every call into the real code themselves and
// report panics there as outcomes).
func safeExec(e Engine, plan any, c *Ctx) (v *Violation) {
	defer func() {
		if p := recover(); p != nil {
			buf := make([]byte, 1<<14)
			buf = buf[:runtime.Stack(buf, false)]
			fatal2("panic escaped engine %s: %v\nplan=%s\n%s", e.ID(), p, planJSON(plan), buf)
		}
	}()
	clockInit(hash64(planJSON(plan)), c)
	bgInit(hash64(planJSON(plan)), c)
	return e.Exec(plan, c)
}

// ---------------------------------------------------------------- fresh-process execution
//
// The library under test may (after a change) hold process-global state; a
// plan is only guaranteed to be a pure function of (plan, code) when it
// starts from a fresh process. Confirmation and minimisation of violations
// therefore execute every candidate plan in a fresh process of this binary.

type execResult struct {
	V       *Violation `json:"violation"`
	LogHash string     `json:"log_hash"`
}

func execFresh(e Engine, plan any, env []string) execResult {
	tmp, err := os.CreateTemp(scratchBase(), "simcheck-plan-*.json")
	if err != nil {
		fatal2("%v", err)
	}
	defer os.Remove(tmp.Name())
	tmp.Write(planJSON(plan))
	tmp.Close()
	self, _ := os.Executable()
	out, err := withProcEnv(exec.Command(self, "exec", e.ID(), tmp.Name()), env).Output()
	if err != nil {
		se := ""
		if ee, ok := err.(*exec.ExitError); ok {
			se = string(ee.Stderr)
		}
		fatal2("exec of plan in a fresh process failed: %v\n%s\n%s", err, out, se)
	}
	var r execResult
	if err := json.Unmarshal(out, &r); err != nil {
		fatal2("exec output: %v: %s", err, out)
	}
	return r
}

// execCmd implements "simcheck exec <id> <planfile>".
func execCmd(id, planfile string) {
	e, ok := engines[id]
	if !ok {
		fatal2("no engine for %q", id)
	}
	b, err := os.ReadFile(planfile)
	if err != nil {
		fatal2("%v", err)
	}
	plan, err := e.Decode(b)
	if err != nil {
		fatal2("decode: %v", err)
	}
	c := newCtx(true)
	v := safeExec(e, plan, c)
	out, _ := json.Marshal(execResult{V: v, LogHash: logHash(c.Log)})
	os.Stdout.Write(out)
}

// minimise greedily shrinks plan while the same violation class recurs; every
// candidate is executed in a fresh process, in parallel batches (the first
// accepted candidate in proposal order wins, so the result is deterministic).
func minimise(e Engine, plan any, v *Violation, maxExecs int, deadline time.Time, env []string) (any, *Violation, int) {
	execs := 0
	par := runtime.NumCPU()
	for {
		cands := e.Shrink(plan)
		improved := false
		for lo := 0; lo < len(cands) && !improved; lo += par {
			if execs >= maxExecs || time.Now().After(deadline) {
				return plan, v, execs
			}
			hi := min(lo+par, len(cands))
			res := make([]execResult, hi-lo)
			var wg sync.WaitGroup
			for k := lo; k < hi; k++ {
				wg.Add(1)
				go func(k int) { defer wg.Done(); res[k-lo] = execFresh(e, cands[k], env) }(k)
			}
			wg.Wait()
			execs += hi - lo
			for k := lo; k < hi; k++ {
				if cv := res[k-lo].V; cv != nil && cv.Class == v.Class {
					plan, v, improved = cands[k], cv, true
					break
				}
			}
		}
		if !improved {
			return plan, v, execs
		}
	}
}

// ---------------------------------------------------------------- replay files

type ReplayFile struct {
	Property string          `json:"property"`
	Seed     uint64          `json:"seed"`
	Run      uint64          `json:"run"`
	Class    string          `json:"class"`
	Key      string          `json:"key"`
	Detail   string          `json:"detail"`
	Plan     json.RawMessage `json:"plan"`
	Original json.RawMessage `json:"original_plan,omitempty"`
	Shrinks  int             `json:"shrink_execs"`
	Log      []string        `json:"event_log"`
	LogHash  string          `json:"event_log_hash"`
	RepoHead string          `json:"repo_head"`
	RepoDiff string          `json:"repo_diff_hash"`
	// ShardPrefix is set when the violation does not reproduce from the plan
	// alone in a fresh process but only after the runs that preceded it in its
	// worker process (process-global state in the library): the replay is then
	// the deterministic re-execution of that worker's runs up to Run.
	ShardPrefix *shardPrefix `json:"shard_prefix,omitempty"`
	// ProcEnv: what the worker process that found the violation was started with on top
	// of the inherited environment (procenv.go); replay re-executes itself with it.
	ProcEnv []string `json:"process_environment,omitempty"`
}

type shardPrefix struct {
	Tier string `json:"tier"`
	K    int    `json:"k"`
	N    int    `json:"n"`
}

func repoState() (string, string) {
	head, _ := exec.Command("git", "-C", repoDir(), "rev-parse", "HEAD").Output()
	diff, _ := exec.Command("git", "-C", repoDir(), "diff", "HEAD").Output()
	s := sha256.Sum256(diff)
	return strings.TrimSpace(string(head)), hex.EncodeToString(s[:])[:16]
}

func repoDir() string {
	if d := os.Getenv("VERIF_REPO"); d != "" {
		return d
	}
	return "/repo"
}
func verifDir() string {
	if d := os.Getenv("VERIF_DIR"); d != "" {
		return d
	}
	return "/verif"
}

func writeReplay(e Engine, seed, run uint64, orig, plan any, v *Violation, shr int, sp *shardPrefix, env []string) string {
	c := newCtx(true)
	if sp == nil {
		// event log for the file; the authoritative hash comes from the fresh-process replay
		safeExec(e, plan, c)
	}
	head, diff := repoState()
	rf := ReplayFile{Property: e.ID(), Seed: seed, Run: run, Class: v.Class, Key: v.Key, Detail: v.Detail,
		Plan: planJSON(plan), Original: planJSON(orig), Shrinks: shr, Log: c.Log, LogHash: logHash(c.Log), RepoHead: head, RepoDiff: diff, ShardPrefix: sp, ProcEnv: env}
	if sp == nil {
		rf.LogHash = execFresh(e, plan, env).LogHash
	}
	dir := filepath.Join(envOr("VERIF_REPLAY_DIR", filepath.Join(verifDir(), "replays")), e.ID())
	os.MkdirAll(dir, 0o755)
	path := filepath.Join(dir, fmt.Sprintf("%d-%d-%s.json", seed, run, sanitize(v.Class)))
	b, _ := json.MarshalIndent(rf, "", " ")
	if err := os.WriteFile(path, b, 0o644); err != nil {
		fatal2("write replay: %v", err)
	}
	return path
}

func sanitize(s string) string {
	return strings.Map(func(r rune) rune {
		if r >= 'a' && r <= 'z' || r >= 'A' && r <= 'Z' || r >= '0' && r <= '9' || r == '-' {
			return r
		}
		return '_'
	}, s)
}

type shardCrash struct {
	k   int
	out string
}

// isLibraryCrash: the output of a dead worker shows a Go runtime "fatal error:" or an
// unrecovered "panic:", and the innermost frame of the crashing goroutine that is not
// the runtime's or package sync's belongs to the library under test.
func isLibraryCrash(out string) bool {
	i := strings.Index(out, "fatal error:")
	if i < 0 {
		i = strings.Index(out, "\npanic:")
	}
	if i < 0 {
		return false
	}
	rest := out[i:]
	j := strings.Index(rest, "goroutine ")
	if j < 0 {
		return false
	}
	for _, line := range strings.Split(rest[j:], "\n")[1:] {
		if line == "" {
			break // end of the first goroutine's stack
		}
		if strings.HasPrefix(line, "\t") {
			continue
		}
		switch {
		case strings.HasPrefix(line, "runtime."), strings.HasPrefix(line, "sync."), strings.HasPrefix(line, "sync/"), strings.HasPrefix(line, "internal/"), strings.HasPrefix(line, "panic("):
			continue
		}
		return strings.HasPrefix(line, "github.com/jub0bs/cors")
	}
	return false
}

// replayCrash re-runs a worker's deterministic run sequence in a child process.
func replayCrash(rf ReplayFile, path string) int {
	self, _ := os.Executable()
	tmp, err := os.MkdirTemp(scratchBase(), "simcheck-replay-")
	if err != nil {
		fatal2("%v", err)
	}
	defer os.RemoveAll(tmp)
	sp := rf.ShardPrefix
	cmd := withProcEnv(exec.Command(self, "shard", rf.Property, sp.Tier, fmt.Sprint(rf.Seed), fmt.Sprint(sp.K), fmt.Sprint(sp.N), fmt.Sprint(rf.Run),
		fmt.Sprint(time.Now().Add(30*time.Minute).UnixNano()), filepath.Join(tmp, "part.json")), rf.ProcEnv)
	var out bytes.Buffer
	cmd.Stdout, cmd.Stderr = &out, &out
	err = cmd.Run()
	switch {
	case err != nil && isLibraryCrash(out.String()):
		fmt.Printf("REPLAY property=%s class=fatal-runtime-error: worker %d/%d crashed again: %s\n", rf.Property, sp.K, sp.N, strings.SplitN(out.String()[strings.Index(out.String(), "fatal error:")+0:], "\n", 2)[0])
		fmt.Printf("VIOLATION property=%s replay=%s\n", rf.Property, path)
		return 1
	case err == nil:
		fmt.Printf("REPLAY property=%s: the worker no longer crashes\n", rf.Property)
		return 0
	}
	fmt.Printf("REPLAY-DIVERGED property=%s: the worker failed differently: %v\n%s\n", rf.Property, err, out.String())
	return 2
}

// replay executes a replay file in this (fresh) process. Exit status: 1 and a
// VIOLATION line if the same class and event-log hash recur, 0 if the plan no
// longer violates, 2 if it violates differently than recorded.
func replay(path string, quiet bool) int {
	b, err := os.ReadFile(path)
	if err != nil {
		fatal2("%v", err)
	}
	var rf ReplayFile
	if err := json.Unmarshal(b, &rf); err != nil {
		fatal2("%s: %v", path, err)
	}
	e, ok := engines[rf.Property]
	if !ok {
		fatal2("no engine for %s in this binary", rf.Property)
	}
	if !sameEnv(rf.ProcEnv, myProcEnv()) && !(rf.Class == "fatal-runtime-error" && rf.ShardPrefix != nil) {
		// the violation was found in a process started in a particular environment
		// (procenv.go): replay in a process started the same way
		self, _ := os.Executable()
		cmd := withProcEnv(exec.Command(self, os.Args[1:]...), rf.ProcEnv)
		cmd.Stdout, cmd.Stderr = os.Stdout, os.Stderr
		err := cmd.Run()
		if ee, ok := err.(*exec.ExitError); ok {
			return ee.ExitCode()
		} else if err != nil {
			fatal2("replay exec: %v", err)
		}
		return 0
	}
	if rf.Class == "fatal-runtime-error" && rf.ShardPrefix != nil {
		return replayCrash(rf, path)
	}
	plan, err := e.Decode(rf.Plan)
	if err != nil {
		fatal2("decode plan: %v", err)
	}
	if sp := rf.ShardPrefix; sp != nil {
		res := runShard(e, sp.Tier, rf.Seed, sp.K, sp.N, int(rf.Run)+1, time.Now().Add(24*time.Hour))
		if res.First != nil && res.First.Run == rf.Run && res.First.V.Class+"+process-history" == rf.Class {
			if !quiet {
				fmt.Printf("REPLAY property=%s class=%s (after the %d preceding runs of worker %d/%d)\n  %s\n", rf.Property, rf.Class, res.Runs-1, sp.K, sp.N, res.First.V.Detail)
			}
			fmt.Printf("VIOLATION property=%s replay=%s\n", rf.Property, path)
			return 1
		}
		fmt.Printf("REPLAY-DIVERGED property=%s: worker prefix no longer ends in class=%s at run %d\n", rf.Property, rf.Class, rf.Run)
		return 2
	}
	c := newCtx(true)
	v := safeExec(e, plan, c)
	if v == nil {
		if !quiet {
			fmt.Printf("REPLAY property=%s: plan no longer violates\n", rf.Property)
		}
		return 0
	}
	lh := logHash(c.Log)
	if !quiet {
		for _, l := range c.Log {
			fmt.Println("  |", l)
		}
		fmt.Printf("REPLAY property=%s class=%s key=%s log_hash=%s (recorded %s)\n  %s\n", rf.Property, v.Class, v.Key, lh, rf.LogHash, v.Detail)
	}
	if v.Class != rf.Class {
		fmt.Printf("REPLAY-DIVERGED property=%s recorded class=%s hash=%s; now class=%s hash=%s\n", rf.Property, rf.Class, rf.LogHash, v.Class, lh)
		return 2
	}
	if lh != rf.LogHash {
		// Same violation class, different event log: the simulator is deterministic
		// (./selftest.sh), so the LIBRARY under test behaves differently from one
		// process to the next (e.g. a sync.Pool or map-order dependence was
		// introduced). The violation stands; the divergence is reported with it.
		fmt.Printf("NOTE property=%s: violation class %s reproduces, but the event log differs from the recorded one (%s vs %s): the code under test is itself nondeterministic\n", rf.Property, v.Class, lh, rf.LogHash)
	}
	fmt.Printf("VIOLATION property=%s replay=%s\n", rf.Property, path)
	return 1
}

// ---------------------------------------------------------------- known findings

type knownFinding struct{ Property, Class, Key, Text string }

func loadKnown() []knownFinding {
	b, err := os.ReadFile(filepath.Join(verifDir(), "known_findings.txt"))
	if err != nil {
		return nil
	}
	var out []knownFinding
	for _, line := range strings.Split(string(b), "\n") {
		line = strings.TrimSpace(line)
		if !strings.HasPrefix(line, "known:") { // "fixed:" lines suppress nothing
			continue
		}
		kf := knownFinding{Text: strings.TrimSpace(strings.TrimPrefix(line, "known:"))}
		for _, f := range strings.Fields(kf.Text) {
			switch {
			case strings.HasPrefix(f, "property="):
				kf.Property = f[9:]
			case strings.HasPrefix(f, "class="):
				kf.Class = f[6:]
			case strings.HasPrefix(f, "key="):
				kf.Key = f[4:]
			}
		}
		out = append(out, kf)
	}
	return out
}

func matchKnown(kfs []knownFinding, id string, v *Violation) *knownFinding {
	for i := range kfs {
		k := &kfs[i]
		if k.Property == id && k.Class == v.Class && k.Key == v.Key && k.Key != "" {
			return k
		}
	}
	return nil
}

// ---------------------------------------------------------------- the runner

type shardResult struct {
	Runs        int64            `json:"runs"`
	Nontrivial  int64            `json:"nontrivial"`
	Steps       int64            `json:"steps"`
	Stats       map[string]int64 `json:"stats"`
	Hashes      []uint64         `json:"-"` // distinct non-trivial plan hashes
	Sigs        []uint64         `json:"-"` // distinct interleaving signatures
	HashCapped  bool             `json:"hash_capped"`
	Samples     []sample         `json:"samples"`
	First       *rawViolation    `json:"first_violation,omitempty"` // the worker stops at its first violation
	KnownHits   map[string]int64 `json:"known_hits"`
	StoppedWall bool             `json:"stopped_on_wall_cap"`
}
type sample struct {
	Run  uint64          `json:"run"`
	Plan json.RawMessage `json:"plan"`
	Log  []string        `json:"event_log"`
}
type rawViolation struct {
	Run  uint64          `json:"run"`
	Plan json.RawMessage `json:"plan"`
	V    Violation       `json:"violation"`
	K    int             `json:"k"`
	N    int             `json:"n"`
	Env  []string        `json:"env,omitempty"`
}
type foundViolation struct {
	Run    uint64 `json:"run"`
	Replay string `json:"replay"`
	Class  string `json:"class"`
	Key    string `json:"key"`
	Detail string `json:"detail"`
}

const hashCap = 3_000_000

// runShard executes runs k, k+n, k+2n, ... < total.
func runShard(e Engine, tier string, seed uint64, k, n, total int, deadline time.Time) *shardResult {
	res := &shardResult{Stats: map[string]int64{}, KnownHits: map[string]int64{}}
	seen := map[uint64]struct{}{}
	sigs := map[uint64]struct{}{}
	known := loadKnown()
	for i := k; i < total; i += n {
		if i%64 == k%64 && time.Now().After(deadline) {
			res.StoppedWall = true
			break
		}
		run := uint64(i)
		plan := e.Gen(newR(seed, run), tier)
		keep := len(res.Samples) < 2 && i < 4*n
		c := newCtx(keep)
		v := safeExec(e, plan, c)
		res.Runs++
		res.Steps += c.Steps
		for s, x := range c.Stats {
			res.Stats[s] += x
		}
		if c.Nontrivial {
			res.Nontrivial++
			if len(seen) < hashCap {
				seen[hash64(planJSON(plan))] = struct{}{}
			} else {
				res.HashCapped = true
			}
		}
		if c.Sig != 0 && len(sigs) < hashCap {
			sigs[c.Sig] = struct{}{}
		}
		if keep {
			res.Samples = append(res.Samples, sample{Run: run, Plan: planJSON(plan), Log: c.Log})
		}
		if v == nil {
			continue
		}
		if kf := matchKnown(known, e.ID(), v); kf != nil {
			res.KnownHits[kf.Text]++
			continue
		}
		// Stop at the first violation: from here on this process may carry
		// corrupted global state, and everything else is done in fresh processes.
		res.First = &rawViolation{Run: run, Plan: planJSON(plan), V: *v, K: k, N: n, Env: myProcEnv()}
		break
	}
	for h := range seen {
		res.Hashes = append(res.Hashes, h)
	}
	for h := range sigs {
		res.Sigs = append(res.Sigs, h)
	}
	return res
}

func writePartial(path string, r *shardResult) {
	b, _ := json.Marshal(r)
	if err := os.WriteFile(path, b, 0o644); err != nil {
		fatal2("%v", err)
	}
	hb := make([]byte, 8*len(r.Hashes))
	for i, h := range r.Hashes {
		binary.LittleEndian.PutUint64(hb[8*i:], h)
	}
	if err := os.WriteFile(path+".hashes", hb, 0o644); err != nil {
		fatal2("%v", err)
	}
	sb := make([]byte, 8*len(r.Sigs))
	for i, h := range r.Sigs {
		binary.LittleEndian.PutUint64(sb[8*i:], h)
	}
	if err := os.WriteFile(path+".sigs", sb, 0o644); err != nil {
		fatal2("%v", err)
	}
}
func readPartial(path string) *shardResult {
	b, err := os.ReadFile(path)
	if err != nil {
		fatal2("shard result missing: %v", err)
	}
	var r shardResult
	if err := json.Unmarshal(b, &r); err != nil {
		fatal2("%s: %v", path, err)
	}
	hb, _ := os.ReadFile(path + ".hashes")
	for i := 0; i+8 <= len(hb); i += 8 {
		r.Hashes = append(r.Hashes, binary.LittleEndian.Uint64(hb[i:]))
	}
	sb, _ := os.ReadFile(path + ".sigs")
	for i := 0; i+8 <= len(sb); i += 8 {
		r.Sigs = append(r.Sigs, binary.LittleEndian.Uint64(sb[i:]))
	}
	return &r
}

// runCheck is the top-level "run <id>": it shards the run indices over worker
// processes (fresh processes, so one property = its own OS processes), merges
// the results, confirms every violation by replaying it in a fresh process,
// writes the evidence file and returns the exit status.
func runCheck(e Engine, tier string, seed uint64, workers int, runsOverride int, inproc bool) int {
	start := time.Now()
	total, wall := e.Budget(tier)
	if runsOverride > 0 {
		total = runsOverride
	} else if v, err := strconv.Atoi(os.Getenv("VERIF_RUNS")); err == nil && v > 0 {
		total = v
	}
	deadline := start.Add(wall)
	if !inproc && workers > 1 {
		workers = workersFor(workers)
	}
	var parts []*shardResult
	var crashed []shardCrash
	if inproc || workers <= 1 {
		parts = append(parts, runShard(e, tier, seed, 0, 1, total, deadline))
	} else {
		tmp, err := os.MkdirTemp(scratchBase(), "simcheck-shards-")
		if err != nil {
			fatal2("%v", err)
		}
		defer os.RemoveAll(tmp)
		self, _ := os.Executable()
		var wg sync.WaitGroup
		errs := make([]error, workers)
		outs := make([]bytes.Buffer, workers)
		for k := 0; k < workers; k++ {
			wg.Add(1)
			go func(k int) {
				defer wg.Done()
				cmd := withProcEnv(exec.Command(self, "shard", e.ID(), tier, fmt.Sprint(seed), fmt.Sprint(k), fmt.Sprint(workers), fmt.Sprint(total),
					fmt.Sprint(deadline.UnixNano()), filepath.Join(tmp, fmt.Sprintf("part%d.json", k))), procEnvFor(k, workers, seed))
				cmd.Stdout, cmd.Stderr = &outs[k], &outs[k]
				errs[k] = cmd.Run()
			}(k)
		}
		wg.Wait()
		for k := 0; k < workers; k++ {
			if errs[k] != nil {
				// an unrecoverable runtime error (fatal error: ..., or a panic outside any recover)
				// whose innermost non-runtime frame is the library's takes the whole worker
				// down: that IS a violation (the sequential code never crashes), replayed by
				// re-running this worker's deterministic run sequence
				if out := outs[k].String(); isLibraryCrash(out) {
					crashed = append(crashed, shardCrash{k, out})
					continue
				}
				fatal2("shard %d failed: %v\n%s", k, errs[k], outs[k].String())
			}
			parts = append(parts, readPartial(filepath.Join(tmp, fmt.Sprintf("part%d.json", k))))
		}
	}
	// merge
	m := &shardResult{Stats: map[string]int64{}, KnownHits: map[string]int64{}}
	var raws []rawViolation
	distinct := map[uint64]struct{}{}
	distinctSigs := map[uint64]struct{}{}
	for _, p := range parts {
		m.Runs += p.Runs
		m.Nontrivial += p.Nontrivial
		m.Steps += p.Steps
		m.HashCapped = m.HashCapped || p.HashCapped
		m.StoppedWall = m.StoppedWall || p.StoppedWall
		for k, v := range p.Stats {
			m.Stats[k] += v
		}
		for k, v := range p.KnownHits {
			m.KnownHits[k] += v
		}
		for _, h := range p.Hashes {
			distinct[h] = struct{}{}
		}
		for _, h := range p.Sigs {
			distinctSigs[h] = struct{}{}
		}
		if len(m.Samples) < 3 {
			m.Samples = append(m.Samples, p.Samples...)
		}
		if p.First != nil {
			raws = append(raws, *p.First)
		}
	}
	if len(m.Samples) > 3 {
		m.Samples = m.Samples[:3]
	}
	// reach: every fault kind fired and every probe hit, else the workload is broken
	var unreached []string
	// (a probe that can only fire where the code under test has a certain shape - a
	// lock on the request path, say - is required only if that shape was met at all)
	var needs map[string]string
	if pc, ok := e.(interface{ ProbeNeeds() map[string]string }); ok {
		needs = pc.ProbeNeeds()
	}
	for _, k := range append(append([]string{}, e.FaultKinds()...), e.Probes()...) {
		if m.Stats[k] == 0 {
			if pre, ok := needs[k]; ok && m.Stats[pre] == 0 {
				continue
			}
			unreached = append(unreached, k)
		}
	}
	// violations: confirm from a fresh process, minimise in fresh processes,
	// write the replay file, replay it once more in a fresh process
	status := 0
	self, _ := os.Executable()
	var confirmed []foundViolation
	known := loadKnown()
	sort.Slice(raws, func(i, j int) bool { return raws[i].Run < raws[j].Run })
	seenV := map[string]bool{}
	minDeadline := time.Now().Add(3 * time.Minute)
	for _, rv := range raws {
		if seenV[rv.V.Class] { // one witness per violation class is reported
			continue
		}
		seenV[rv.V.Class] = true
		plan, err := e.Decode(rv.Plan)
		if err != nil {
			fatal2("decode own plan: %v", err)
		}
		var path string
		fr := execFresh(e, plan, rv.Env)
		if fr.V == nil || fr.V.Class != rv.V.Class {
			// depends on the runs that preceded it in its worker process
			v := rv.V
			v.Class += "+process-history"
			v.Detail = "reproducible only after the preceding runs of its worker process (state leaks between independent middlewares/runs through process-global memory): " + v.Detail
			path = writeReplay(e, seed, rv.Run, plan, plan, &v, 0, &shardPrefix{Tier: tier, K: rv.K, N: rv.N}, rv.Env)
			confirmed = append(confirmed, foundViolation{Run: rv.Run, Replay: path, Class: v.Class, Key: v.Key, Detail: v.Detail})
			// the prefix replay is its own confirmation (it is the run that found it); checked below
		} else {
			mp, mv, shr := minimise(e, plan, fr.V, 3000, minDeadline, rv.Env)
			if len(rv.Env) > 0 { // does it need that environment at all? all of it?
				if r0 := execFresh(e, mp, nil); r0.V != nil && r0.V.Class == mv.Class {
					rv.Env = nil
				} else {
					for i := 0; i < len(rv.Env) && len(rv.Env) > 1; {
						less := append(append([]string{}, rv.Env[:i]...), rv.Env[i+1:]...)
						if r1 := execFresh(e, mp, less); r1.V != nil && r1.V.Class == mv.Class {
							rv.Env = less
						} else {
							i++
						}
					}
					mv.Detail = fmt.Sprintf("[in a process started with %s] ", strings.Join(rv.Env, " ")) + mv.Detail
				}
			}
			if kf := matchKnown(known, e.ID(), mv); kf != nil {
				m.KnownHits[kf.Text]++
				continue
			}
			path = writeReplay(e, seed, rv.Run, plan, mp, mv, shr, nil, rv.Env)
			confirmed = append(confirmed, foundViolation{Run: rv.Run, Replay: path, Class: mv.Class, Key: mv.Key, Detail: mv.Detail})
		}
		_, err = exec.Command(self, "replay", "-quiet", path).CombinedOutput()
		code := 0
		if ee, ok := err.(*exec.ExitError); ok {
			code = ee.ExitCode()
		} else if err != nil {
			fatal2("replay exec: %v", err)
		}
		if code != 1 {
			// The violation WAS observed, by real code, in a worker and again in a fresh
			// process before minimisation. If the minimised plan does not reproduce every
			// time, the library under test is itself nondeterministic (sync.Pool reuse, GC
			// timing, map iteration order): the simulator is deterministic (./selftest.sh).
			// Try again a few times; report the violation in any case, with what was seen.
			hits := 0
			const tries = 6
			for t := 0; t < tries; t++ {
				_, err := exec.Command(self, "replay", "-quiet", path).CombinedOutput()
				if ee, ok := err.(*exec.ExitError); ok && ee.ExitCode() == 1 {
					hits++
				}
			}
			last := &confirmed[len(confirmed)-1]
			if hits == 0 {
				// fall back to the plan as it was found (unminimised)
				v := rv.V
				path = writeReplay(e, seed, rv.Run, plan, plan, &v, 0, nil, rv.Env)
				last.Replay = path
				for t := 0; t < tries; t++ {
					_, err := exec.Command(self, "replay", "-quiet", path).CombinedOutput()
					if ee, ok := err.(*exec.ExitError); ok && ee.ExitCode() == 1 {
						hits++
					}
				}
			}
			last.Detail = fmt.Sprintf("NOTE: the replay file reproduced this in %d of %d further fresh processes - the behaviour of the library under test is not a function of the plan alone (sync.Pool reuse, GC timing ...). ", hits, tries) + last.Detail
		}
	}
	sort.Slice(confirmed, func(i, j int) bool { return confirmed[i].Run < confirmed[j].Run })
	wallS := time.Since(start).Seconds()
	writeEvidence(e, tier, seed, m, len(distinct), len(distinctSigs), wallS, confirmed, unreached, workers)
	var kh []string
	for k := range m.KnownHits {
		kh = append(kh, k)
	}
	sort.Strings(kh)
	for _, k := range kh {
		fmt.Printf("KNOWN-FINDING: %s (hit %d times)\n", k, m.KnownHits[k])
	}
	for _, v := range confirmed {
		fmt.Printf("  class=%s key=%s run=%d: %s\n", v.Class, v.Key, v.Run, v.Detail)
		fmt.Printf("VIOLATION property=%s replay=%s\n", e.ID(), v.Replay)
		status = 1
	}
	if len(crashed) > 1 {
		fmt.Printf("  (%d workers crashed; reporting the first)\n", len(crashed))
		crashed = crashed[:1]
	}
	for _, cr := range crashed {
		detail := cr.out
		if i := strings.Index(detail, "fatal error:"); i >= 0 {
			detail = detail[i:]
		} else if i := strings.Index(detail, "panic:"); i >= 0 {
			detail = detail[i:]
		}
		if len(detail) > 6000 {
			detail = detail[:6000]
		}
		head, diff := repoState()
		rf := ReplayFile{Property: e.ID(), Seed: seed, Run: uint64(total), Class: "fatal-runtime-error", Key: "worker", Detail: detail, RepoHead: head, RepoDiff: diff,
			ShardPrefix: &shardPrefix{Tier: tier, K: cr.k, N: workers}, ProcEnv: procEnvFor(cr.k, workers, seed)}
		b, _ := json.MarshalIndent(rf, "", " ")
		dir := filepath.Join(envOr("VERIF_REPLAY_DIR", filepath.Join(verifDir(), "replays")), e.ID())
		os.MkdirAll(dir, 0o755)
		path := filepath.Join(dir, fmt.Sprintf("%d-worker%d-fatal-runtime-error.json", seed, cr.k))
		os.WriteFile(path, b, 0o644)
		first := strings.SplitN(detail, "\n", 2)[0]
		fmt.Printf("  class=fatal-runtime-error key=worker%d: the library brought the process down under a schedule/history of worker %d/%d: %s\n", cr.k, cr.k, workers, first)
		fmt.Printf("VIOLATION property=%s replay=%s\n", e.ID(), path)
		status = 1
	}
	if status == 0 && len(unreached) > 0 {
		fatal2("reach self-check failed for %s: never reached %v (the workload is broken; this is not a verdict on the property)", e.ID(), unreached)
	}
	fmt.Printf("%s property=%s tier=%s seed=%d runs=%d distinct_nontrivial=%d steps=%d wall=%.1fs runs/h=%.3g\n",
		map[int]string{0: "OK", 1: "FAIL"}[status], e.ID(), tier, seed, m.Runs, len(distinct), m.Steps, wallS, float64(m.Runs)/wallS*3600)
	return status
}

func scratchBase() string {
	if d := os.Getenv("TMPDIR"); d != "" {
		return d
	}
	return "/var/tmp"
}

// ---------------------------------------------------------------- evidence

func writeEvidence(e Engine, tier string, seed uint64, m *shardResult, distinct, distinctSigs int, wallS float64, vs []foundViolation, unreached []string, workers int) {
	faults := map[string]int64{}
	for _, k := range e.FaultKinds() {
		faults[k] = m.Stats[k]
	}
	probes := map[string]int64{}
	for _, k := range e.Probes() {
		probes[k] = m.Stats[k]
	}
	rule := e.Rule()
	if m.HashCapped {
		rule += " [distinct-hash set capped at " + fmt.Sprint(hashCap) + " per worker: distinct_nontrivial is a lower bound]"
	}
	var samples []any
	for _, s := range m.Samples {
		samples = append(samples, s)
	}
	cov := map[string]any{
		"evaluations":                m.Runs,
		"distinct_nontrivial":        distinct,
		"nontrivial_runs":            m.Nontrivial,
		"rule":                       rule,
		"samples":                    samples,
		"simulated_runs_per_hour":    float64(m.Runs) / wallS * 3600,
		"seeds_per_hour":             float64(m.Runs) / wallS * 3600,
		"seed_note":                  "one run = one PRNG stream PCG(VERIF_SEED, run index); every run index is its own replayable seed",
		"simulated_time_steps":       m.Steps,
		"simulated_time_note":        "the library reads no clock; simulated time is the simulator's logical event count",
		"faults_fired":               faults,
		"reach_probes":               probes,
		"counters":                   m.Stats,
		"components":                 e.Parties(),
		"workers":                    workers,
		"stopped_on_wall_clock_cap":  m.StoppedWall,
		"unreached":                  unreached,
		"known_finding_hits":         m.KnownHits,
		"dictionary_mined_from_tree": dict.summary(),
		"dictionary_note":            "literals of the non-test Go files of the tree under test, offered to the generators only (sim/dict.go); VERIF_DICT=0 switches it off",
	}
	if workers > 1 {
		envs := map[string]int{}
		for k := 0; k < workers; k++ {
			key := strings.Join(procEnvFor(k, workers, seed), " ")
			if key == "" {
				key = "(inherited)"
			}
			envs[key]++
		}
		cov["worker_process_environments"] = envs
		cov["worker_process_environments_note"] = "start-up environment of the worker processes (sim/procenv.go): GOMAXPROCS values that are mostly not powers of two; environment variables only if the tree under test reads some by a literal name"
	}
	if clockBuild {
		cov["simulated_clock"] = "on: the tree under test imports \"time\"; time.Now/Since/Until/Sleep read the simulator's clock, which jumps forward between the steps of a run (fault F13, sim/clock_on.go)"
	} else {
		cov["simulated_clock"] = "not built: the tree under test does not import \"time\", so there is no clock for its behaviour to depend on"
	}
	if f := os.Getenv("VERIF_EXTRA_EVIDENCE"); f != "" {
		if b, err := os.ReadFile(f); err == nil {
			var x any
			if json.Unmarshal(b, &x) == nil {
				cov["companions"] = x
			}
		}
	}
	if distinctSigs > 0 {
		cov["distinct_interleavings"] = distinctSigs
		cov["distinct_interleavings_measure"] = "distinct hashes of the sequence of (task, yield label) pairs at context switches plus the order of operation invocations/returns"
	}
	ev := map[string]any{
		"property_id": e.ID(),
		"tier":        tier,
		"seed":        seed,
		"level":       e.Level(),
		"coverage":    cov,
		"assumptions": e.Assumptions(),
		"wall_s":      wallS,
		"violations":  len(vs),
	}
	if len(vs) > 0 {
		ev["violation_list"] = vs
	}
	b, _ := json.MarshalIndent(ev, "", " ")
	dir := envOr("VERIF_EVIDENCE_DIR", filepath.Join(verifDir(), "evidence"))
	os.MkdirAll(dir, 0o755)
	if err := os.WriteFile(filepath.Join(dir, e.ID()+".json"), b, 0o644); err != nil {
		fatal2("%v", err)
	}
}
