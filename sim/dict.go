package main

// dict.go — a dictionary of literals mined from the tree under test.
//
// Seeded sampling cannot guess one particular port, header name or host out of
// thousands (DESIGN §13, "specific magic values"). Fuzzers answer that with a
// dictionary of the constants that occur in the program; so does this
// simulator: at start-up every simcheck process parses the non-test Go files of
// $VERIF_REPO (the tree the check was built against; for C07 the ORIGINAL tree,
// not the instrumented copy) and collects their string and integer literals.
// The GENERATORS then draw from the dictionary with small probabilities
// (hosts, ports, schemes, tokens for methods and header names, list sizes,
// request header values). No oracle ever looks at it: what is judged, and how,
// does not depend on the code under test. A changed tree has a changed
// dictionary, hence other plans for the same VERIF_SEED - one seed is still one
// execution for a given tree, and replay files carry explicit plans.

import (
	"go/ast"
	"go/parser"
	"go/token"
	"io/fs"
	"os"
	"path/filepath"
	"sort"
	"strconv"
	"strings"
)

type dictionary struct {
	origins []string // contain "://"
	hosts   []string // look like a host (domain, IPv4, bracketed IPv6)
	schemes []string // look like a URI scheme
	tokens  []string // RFC 9110 tokens (method / header-name shaped)
	any     []string // every printable string literal up to 300 bytes
	ports   []int    // 1..65535 (each mined integer n contributes n-1, n, n+1)
	status  []int    // 200..299
	maxAge  []int    // -1..86400
	sizes   []int    // 2..600: list lengths, repetition counts
	files   int
}

var dict dictionary

func isTokenStr(s string) bool {
	if s == "" || len(s) > 64 {
		return false
	}
	for i := 0; i < len(s); i++ {
		ch := s[i]
		switch {
		case ch >= 'a' && ch <= 'z', ch >= 'A' && ch <= 'Z', ch >= '0' && ch <= '9':
		case strings.IndexByte("!#$%&'*+-.^_`|~", ch) >= 0:
		default:
			return false
		}
	}
	return true
}

func isHostStr(s string) bool {
	if len(s) < 2 || len(s) > 253 {
		return false
	}
	if s[0] == '[' && s[len(s)-1] == ']' {
		return strings.Contains(s, ":")
	}
	dot := false
	for i := 0; i < len(s); i++ {
		ch := s[i]
		switch {
		case ch >= 'a' && ch <= 'z', ch >= '0' && ch <= '9', ch == '-':
		case ch == '.':
			dot = true
		default:
			return false
		}
	}
	return (dot || s == "localhost") && s[0] != '.' && s[0] != '-'
}

func isSchemeStr(s string) bool {
	if s == "" || len(s) > 64 || !(s[0] >= 'a' && s[0] <= 'z') {
		return false
	}
	for i := 1; i < len(s); i++ {
		ch := s[i]
		if !(ch >= 'a' && ch <= 'z' || ch >= '0' && ch <= '9' || ch == '+' || ch == '-' || ch == '.') {
			return false
		}
	}
	return true
}

func uniqSortedStr(xs []string) []string {
	sort.Strings(xs)
	var out []string
	for i, x := range xs {
		if i == 0 || x != xs[i-1] {
			out = append(out, x)
		}
	}
	return out
}

func uniqSortedInt(xs []int) []int {
	sort.Ints(xs)
	var out []int
	for i, x := range xs {
		if i == 0 || x != xs[i-1] {
			out = append(out, x)
		}
	}
	return out
}

// loadDict mines $VERIF_REPO (default /repo). VERIF_DICT=0 switches the
// dictionary off. Trouble reading the tree leaves the dictionary empty (the
// generators then behave as without it); the build step has already shown
// that the tree compiles.
func loadDict() {
	if os.Getenv("VERIF_DICT") == "0" {
		return
	}
	root := os.Getenv("VERIF_REPO")
	if root == "" {
		root = "/repo"
	}
	var strs []string
	var ints []int
	fset := token.NewFileSet()
	filepath.WalkDir(root, func(path string, d fs.DirEntry, err error) error {
		if err != nil {
			return nil
		}
		name := d.Name()
		if d.IsDir() {
			if path != root && (strings.HasPrefix(name, ".") || strings.HasPrefix(name, "_") || name == "testdata" || name == "vendor") {
				return filepath.SkipDir
			}
			return nil
		}
		if !strings.HasSuffix(name, ".go") || strings.HasSuffix(name, "_test.go") {
			return nil
		}
		f, err := parser.ParseFile(fset, path, nil, parser.SkipObjectResolution)
		if err != nil {
			return nil
		}
		dict.files++
		skip := map[*ast.BasicLit]bool{}
		ast.Inspect(f, func(n ast.Node) bool {
			if imp, ok := n.(*ast.ImportSpec); ok && imp != nil {
				return false
			}
			if f, ok := n.(*ast.Field); ok && f != nil && f.Tag != nil {
				skip[f.Tag] = true // struct tags are not data
			}
			lit, ok := n.(*ast.BasicLit)
			if !ok || skip[lit] {
				return true
			}
			switch lit.Kind {
			case token.STRING:
				if s, err := strconv.Unquote(lit.Value); err == nil && s != "" && len(s) <= 300 {
					strs = append(strs, s)
				}
			case token.CHAR:
				if s, err := strconv.Unquote(lit.Value); err == nil && s != "" {
					strs = append(strs, s)
				}
			case token.INT:
				if v, err := strconv.ParseInt(strings.ReplaceAll(lit.Value, "_", ""), 0, 64); err == nil && v >= -1<<31 && v <= 1<<31 {
					ints = append(ints, int(v))
				}
			}
			return true
		})
		return nil
	})
	for _, s := range uniqSortedStr(strs) {
		printable := true
		for i := 0; i < len(s); i++ {
			if s[i] < 0x20 && s[i] != '\t' || s[i] == 0x7f {
				printable = false
			}
		}
		if !printable {
			continue
		}
		dict.any = append(dict.any, s)
		switch {
		case strings.Contains(s, "://") && !strings.ContainsAny(s, " %"):
			dict.origins = append(dict.origins, s)
		case isHostStr(s):
			dict.hosts = append(dict.hosts, s)
		}
		if isSchemeStr(s) && len(s) >= 2 {
			dict.schemes = append(dict.schemes, s)
		}
		if isTokenStr(s) {
			dict.tokens = append(dict.tokens, s)
		}
	}
	for _, v := range uniqSortedInt(ints) {
		for _, n := range []int{v - 1, v, v + 1} {
			if n >= 1 && n <= 65535 {
				dict.ports = append(dict.ports, n)
			}
			if n >= 200 && n <= 299 {
				dict.status = append(dict.status, n)
			}
			if n >= -1 && n <= 86400 {
				dict.maxAge = append(dict.maxAge, n)
			}
			if n >= 2 && n <= 600 {
				dict.sizes = append(dict.sizes, n)
			}
		}
	}
	dict.ports, dict.status, dict.maxAge, dict.sizes = uniqSortedInt(dict.ports), uniqSortedInt(dict.status), uniqSortedInt(dict.maxAge), uniqSortedInt(dict.sizes)
}

// dictStr returns, with probability p, an entry of xs (if there is one).
func dictStr(r *R, xs []string, p float64) (string, bool) {
	if len(xs) == 0 || !r.P(p) {
		return "", false
	}
	return xs[r.Intn(len(xs))], true
}

func dictInt(r *R, xs []int, p float64) (int, bool) {
	if len(xs) == 0 || !r.P(p) {
		return 0, false
	}
	return xs[r.Intn(len(xs))], true
}

func (d dictionary) summary() map[string]int {
	return map[string]int{"files": d.files, "strings": len(d.any), "origins": len(d.origins), "hosts": len(d.hosts), "schemes": len(d.schemes), "tokens": len(d.tokens),
		"ports": len(d.ports), "status": len(d.status), "max_age": len(d.maxAge), "sizes": len(d.sizes)}
}
