package main

// dict.go — a dictionary of literals mined from the tree under test.
//
// Seeded sampling cannot guess one particular port, header name or host out of
// thousands (DESIGN §13, "specific magic values"). Fuzzers answer that with a
// dictionary of the constants that occur in the program; so does this
// simulator: at start-up every simcheck process parses the non-test Go files of
// $VERIF_REPO (the tree the check was built against; for C07 the ORIGINAL tree,
// not the instrumented copy) and collects their string and integer literals.
// The GENERATORS then draw from the dictionary with small probabilities
// (hosts, ports, schemes, tokens for methods and header names, list sizes,
// request header values). No oracle ever looks at it: what is judged, and how,
// does not depend on the code under test. A changed tree has a changed
// dictionary, hence other plans for the same VERIF_SEED - one seed is still one
// execution for a given tree, and replay files carry explicit plans.

import (
	_ "embed"
	"encoding/json"
	"go/ast"
	"go/parser"
	"go/token"
	"io/fs"
	"os"
	"path/filepath"
	"sort"
	"strconv"
	"strings"
)

// strClass / intClass: one class of mined literals; novel = those that do not
// occur in the pinned tree (dict_baseline.json, recorded from the repository at
// the commit this harness was built against). A literal that is new in the
// tree under test is where a special case announces itself, so the pickers
// prefer novel entries when there are any.
type strClass struct{ all, novel []string }
type intClass struct{ all, novel []int }

func (c strClass) pick(r *R, p float64) (string, bool) {
	if len(c.all) == 0 || !r.P(p) {
		return "", false
	}
	if len(c.novel) > 0 && r.P(0.6) {
		return c.novel[r.Intn(len(c.novel))], true
	}
	return c.all[r.Intn(len(c.all))], true
}

func (c intClass) pick(r *R, p float64) (int, bool) {
	if len(c.all) == 0 || !r.P(p) {
		return 0, false
	}
	if len(c.novel) > 0 && r.P(0.6) {
		return c.novel[r.Intn(len(c.novel))], true
	}
	return c.all[r.Intn(len(c.all))], true
}

// at: deterministic selection (for the probe suites): novel entries first.
func (c strClass) at(k int) string {
	if len(c.novel) > 0 && k%2 == 0 {
		return c.novel[(k/2)%len(c.novel)]
	}
	return c.all[k%len(c.all)]
}

func (c intClass) at(k int) int {
	if len(c.novel) > 0 && k%2 == 0 {
		return c.novel[(k/2)%len(c.novel)]
	}
	return c.all[k%len(c.all)]
}

type dictionary struct {
	origins   strClass // contain "://"
	hosts     strClass // look like a host (domain, IPv4, bracketed IPv6; a leading dot is dropped)
	schemes   strClass // look like a URI scheme
	tokens    strClass // RFC 9110 tokens (method / header-name shaped)
	any       strClass // every printable string literal up to 300 bytes
	ports     intClass // 1..65535 (each mined integer n contributes n-1, n, n+1; constant expressions are folded)
	status    intClass // 200..299
	maxAge    intClass // -1..86400
	sizes     intClass // 2..1200: list lengths, repetition counts
	bytes     intClass // 1201..20000: byte lengths (of a joined header list, say)
	badMaxAge intClass // outside -1..86400 (documented as prohibited)
	badStatus intClass // outside 200..299 (documented as prohibited)
	files     int

	rawStrings []string
	rawInts    []int
	envNames   []string // literal first arguments of os.Getenv / os.LookupEnv (procenv.go)
}

//go:embed dict_baseline.json
var dictBaselineJSON []byte

type dictBaseline struct {
	Strings []string `json:"strings"`
	Ints    []int    `json:"ints"`
}

var dict dictionary

func isTokenStr(s string) bool {
	if s == "" || len(s) > 64 {
		return false
	}
	for i := 0; i < len(s); i++ {
		ch := s[i]
		switch {
		case ch >= 'a' && ch <= 'z', ch >= 'A' && ch <= 'Z', ch >= '0' && ch <= '9':
		case strings.IndexByte("!#$%&'*+-.^_`|~", ch) >= 0:
		default:
			return false
		}
	}
	return true
}

func isHostStr(s string) bool {
	if len(s) < 2 || len(s) > 253 {
		return false
	}
	if s[0] == '[' && s[len(s)-1] == ']' {
		return strings.Contains(s, ":")
	}
	dot := false
	for i := 0; i < len(s); i++ {
		ch := s[i]
		switch {
		case ch >= 'a' && ch <= 'z', ch >= '0' && ch <= '9', ch == '-':
		case ch == '.':
			dot = true
		default:
			return false
		}
	}
	return (dot || s == "localhost") && s[0] != '.' && s[0] != '-'
}

func isSchemeStr(s string) bool {
	if s == "" || len(s) > 64 || !(s[0] >= 'a' && s[0] <= 'z') {
		return false
	}
	for i := 1; i < len(s); i++ {
		ch := s[i]
		if !(ch >= 'a' && ch <= 'z' || ch >= '0' && ch <= '9' || ch == '+' || ch == '-' || ch == '.') {
			return false
		}
	}
	return true
}

func uniqSortedStr(xs []string) []string {
	sort.Strings(xs)
	var out []string
	for i, x := range xs {
		if i == 0 || x != xs[i-1] {
			out = append(out, x)
		}
	}
	return out
}

func uniqSortedInt(xs []int) []int {
	sort.Ints(xs)
	var out []int
	for i, x := range xs {
		if i == 0 || x != xs[i-1] {
			out = append(out, x)
		}
	}
	return out
}

// loadDict mines $VERIF_REPO (default /repo). VERIF_DICT=0 switches the
// dictionary off. Trouble reading the tree leaves the dictionary empty (the
// generators then behave as without it); the build step has already shown
// that the tree compiles.
func loadDict() {
	if os.Getenv("VERIF_DICT") == "0" {
		return
	}
	root := os.Getenv("VERIF_REPO")
	if root == "" {
		root = "/repo"
	}
	var strs, envNames []string
	var ints []int
	fset := token.NewFileSet()
	filepath.WalkDir(root, func(path string, d fs.DirEntry, err error) error {
		if err != nil {
			return nil
		}
		name := d.Name()
		if d.IsDir() {
			if path != root && (strings.HasPrefix(name, ".") || strings.HasPrefix(name, "_") || name == "testdata" || name == "vendor") {
				return filepath.SkipDir
			}
			return nil
		}
		if !strings.HasSuffix(name, ".go") || strings.HasSuffix(name, "_test.go") {
			return nil
		}
		f, err := parser.ParseFile(fset, path, nil, parser.SkipObjectResolution)
		if err != nil {
			return nil
		}
		dict.files++
		skip := map[*ast.BasicLit]bool{}
		ast.Inspect(f, func(n ast.Node) bool {
			if imp, ok := n.(*ast.ImportSpec); ok && imp != nil {
				return false
			}
			if f, ok := n.(*ast.Field); ok && f != nil && f.Tag != nil {
				skip[f.Tag] = true // struct tags are not data
			}
			if ce, ok := n.(*ast.CallExpr); ok && len(ce.Args) >= 1 {
				if sel, ok := ce.Fun.(*ast.SelectorExpr); ok && (sel.Sel.Name == "Getenv" || sel.Sel.Name == "LookupEnv") {
					if lit, ok := ce.Args[0].(*ast.BasicLit); ok && lit.Kind == token.STRING {
						if s, err := strconv.Unquote(lit.Value); err == nil && s != "" {
							envNames = append(envNames, s)
						}
					}
				}
			}
			if be, ok := n.(*ast.BinaryExpr); ok {
				// constant expressions over integer literals (24 * 60 * 60, 1 << 16): the value counts
				if v, ok := foldInt(be); ok && v >= -1<<40 && v <= 1<<40 {
					ints = append(ints, int(v))
				}
			}
			lit, ok := n.(*ast.BasicLit)
			if !ok || skip[lit] {
				return true
			}
			switch lit.Kind {
			case token.STRING:
				if s, err := strconv.Unquote(lit.Value); err == nil && s != "" && len(s) <= 300 {
					strs = append(strs, s)
				}
			case token.CHAR:
				if s, err := strconv.Unquote(lit.Value); err == nil && s != "" {
					strs = append(strs, s)
				}
			case token.INT:
				if v, err := strconv.ParseInt(strings.ReplaceAll(lit.Value, "_", ""), 0, 64); err == nil && v >= -1<<31 && v <= 1<<31 {
					ints = append(ints, int(v))
				}
			}
			return true
		})
		return nil
	})
	var base dictBaseline
	json.Unmarshal(dictBaselineJSON, &base)
	baseS, baseI := map[string]bool{}, map[int]bool{}
	for _, x := range base.Strings {
		baseS[x] = true
	}
	for _, x := range base.Ints {
		baseI[x] = true
	}
	dict.rawStrings, dict.rawInts = uniqSortedStr(strs), uniqSortedInt(ints)
	dict.envNames = uniqSortedStr(envNames)
	addS := func(c *strClass, s string, novel bool) {
		c.all = append(c.all, s)
		if novel {
			c.novel = append(c.novel, s)
		}
	}
	addI := func(c *intClass, n int, novel bool) {
		if len(c.all) > 0 && c.all[len(c.all)-1] == n {
			return
		}
		c.all = append(c.all, n)
		if novel {
			c.novel = append(c.novel, n)
		}
	}
	for _, s := range dict.rawStrings {
		novel := len(base.Strings) > 0 && !baseS[s]
		printable := true
		for i := 0; i < len(s); i++ {
			if s[i] < 0x20 && s[i] != '\t' || s[i] == 0x7f {
				printable = false
			}
		}
		if !printable {
			continue
		}
		addS(&dict.any, s, novel)
		switch {
		case strings.Contains(s, "://") && !strings.ContainsAny(s, " %"):
			addS(&dict.origins, s, novel)
		case isHostStr(s):
			addS(&dict.hosts, s, novel)
		case len(s) > 2 && s[0] == '.' && isHostStr(s[1:]): // a domain suffix
			addS(&dict.hosts, s[1:], novel)
		}
		if isSchemeStr(s) && len(s) >= 2 {
			addS(&dict.schemes, s, novel)
		}
		if isTokenStr(s) {
			addS(&dict.tokens, s, novel)
		}
	}
	// n-1, n, n+1 for every mined n, in ascending order, novel if n is
	var near []int
	novelNear := map[int]bool{}
	for _, v := range dict.rawInts {
		for _, n := range []int{v - 1, v, v + 1} {
			near = append(near, n)
			if len(base.Ints) > 0 && !baseI[v] {
				novelNear[n] = true
			}
		}
	}
	for _, n := range uniqSortedInt(near) {
		nv := novelNear[n]
		if n >= 1 && n <= 65535 {
			addI(&dict.ports, n, nv)
		}
		if n >= 200 && n <= 299 {
			addI(&dict.status, n, nv)
		} else if n >= -1000 && n <= 1000 {
			addI(&dict.badStatus, n, nv)
		}
		if n >= -1 && n <= 86400 {
			addI(&dict.maxAge, n, nv)
		} else if n >= -1<<31 && n <= 1<<31 {
			addI(&dict.badMaxAge, n, nv)
		}
		if n >= 2 && n <= 1200 {
			addI(&dict.sizes, n, nv)
		} else if n > 1200 && n <= 20000 {
			addI(&dict.bytes, n, nv)
		}
	}
}

// foldInt evaluates an expression built from integer literals with + - * / << and parentheses.
func foldInt(e ast.Expr) (int64, bool) {
	switch x := e.(type) {
	case *ast.BasicLit:
		if x.Kind != token.INT {
			return 0, false
		}
		v, err := strconv.ParseInt(strings.ReplaceAll(x.Value, "_", ""), 0, 64)
		return v, err == nil
	case *ast.ParenExpr:
		return foldInt(x.X)
	case *ast.UnaryExpr:
		if v, ok := foldInt(x.X); ok && x.Op == token.SUB {
			return -v, true
		}
	case *ast.BinaryExpr:
		a, ok1 := foldInt(x.X)
		b, ok2 := foldInt(x.Y)
		if !ok1 || !ok2 || a > 1<<40 || a < -1<<40 || b > 1<<40 || b < -1<<40 {
			return 0, false
		}
		switch x.Op {
		case token.ADD:
			return a + b, true
		case token.SUB:
			return a - b, true
		case token.MUL:
			if a != 0 && (b > 1<<20 || b < -1<<20) && (a > 1<<20 || a < -1<<20) {
				return 0, false
			}
			return a * b, true
		case token.QUO:
			if b != 0 {
				return a / b, true
			}
		case token.SHL:
			if b >= 0 && b < 40 && a >= 0 && a < 1<<20 {
				return a << uint(b), true
			}
		}
	}
	return 0, false
}

func (d dictionary) summary() map[string]int {
	return map[string]int{"files": d.files, "strings": len(d.any.all), "novel_strings": len(d.any.novel), "origins": len(d.origins.all), "hosts": len(d.hosts.all), "schemes": len(d.schemes.all), "tokens": len(d.tokens.all),
		"ports": len(d.ports.all), "novel_ports": len(d.ports.novel), "status": len(d.status.all), "max_age": len(d.maxAge.all), "sizes": len(d.sizes.all), "byte_lengths": len(d.bytes.all), "out_of_range_max_age": len(d.badMaxAge.all), "out_of_range_status": len(d.badStatus.all)}
}
