package main

// background.go — what else goes on in the process while a run's own history
// unfolds. Three fault kinds, all decided by a stream that is a pure function of
// the plan (like the clock, clock_on.go), all injected at the step boundaries
// every engine already marks (betweenSteps: before each request and each
// operator call):
//
//	F15 volume    an operator call of the run's history is made N times in a row
//	              instead of once (N around 256, 32768, 65536 — where small counters
//	              and generation stamps come round), and a middleware of the run is
//	              soaked with hundreds of requests (one request repeated, the probe
//	              suite cycled, or as many DISTINCT origins) between two steps;
//	F16 bystander another tenant in the process: a second middleware whose
//	              configuration is DERIVED from the one under observation (identical,
//	              one more origin on a host the first already lists, another letter
//	              case of a method, ...) is created just before or some time after it,
//	              reconfigured, switched to debug, torn down, asked the requests the
//	              observed one denies; a rejected NewMiddleware of such a configuration.
//
// By the documentation every one of these is a no-op for the middleware under
// observation: repeating an operator call leaves the state it left the first
// time, requests leave no state at all, and another middleware is another
// middleware. So no oracle changes; what changes is the state of the process in
// which the oracles are evaluated.

import (
	"fmt"
	"math/rand/v2"
	"os"
	"strings"

	"github.com/jub0bs/cors"
	"github.com/jub0bs/cors/cfgerrors"
)

type bystander struct {
	m   *cors.Middleware
	cfg cors.Config
}

var bg struct {
	rng      *rand.Rand
	c        *Ctx
	by       bool // this run has bystanders
	vol      bool // this run repeats operator calls
	soak     bool // this run soaks
	live     []*cors.Middleware
	lastCfg  map[*cors.Middleware]cors.Config
	bys      []*bystander
	events   int
	ticks    int
	busy     bool
	followUp *bystander
	bigLeft  int // at most this many five-digit repetitions per run
	soakCap  int // > 0: no soak longer than this (a world in which every statement is a schedule point)
}

// bgDisabled: set by an engine whose world cannot host background activity
// (the schedule-controlled worlds: operations there are not atomic).
var bgDisabled bool

func bgInit(seed uint64, c *Ctx) {
	bg.rng = rand.New(rand.NewPCG(seed, 0x4241434b47524e44))
	bg.c = c
	if os.Getenv("VERIF_BG") == "0" { // (measurement knob: no background activity)
		bg.rng = nil
		return
	}
	bg.by = bg.rng.IntN(100) < 18
	bg.vol = bg.rng.IntN(100) < 7
	bg.soak = bg.rng.IntN(100) < 5
	bg.live, bg.bys = nil, nil
	bg.lastCfg = map[*cors.Middleware]cors.Config{}
	bg.events, bg.ticks, bg.busy, bg.bigLeft, bg.followUp, bg.soakCap = 0, 0, false, 2, nil, 0
	bgDisabled = false
}

func betweenSteps(where string) {
	clockTick(where)
	bgTick(where)
}

func bgRegister(m *cors.Middleware) {
	if m != nil && bg.rng != nil && len(bg.live) < 8 {
		bg.live = append(bg.live, m)
	}
}

func cloneConfig(c cors.Config) cors.Config {
	c.Origins, c.Methods, c.RequestHeaders, c.ResponseHeaders = cloneStrs(c.Origins), cloneStrs(c.Methods), cloneStrs(c.RequestHeaders), cloneStrs(c.ResponseHeaders)
	return c
}

func flipCase(s string) string {
	if s != strings.ToLower(s) {
		return strings.ToLower(s)
	}
	return strings.ToUpper(s)
}

// deriveConfig: a configuration related to c the way two tenants' configurations are
// related. It may well be invalid (then the bystander's creation is rejected, which is
// an event too).
func deriveConfig(r *rand.Rand, c cors.Config) cors.Config {
	d := cloneConfig(c)
	sameHostExtra := func() (string, bool) {
		for _, i := range r.Perm(len(d.Origins)) {
			o := d.Origins[i]
			p, ok := splitPattern(o)
			if !ok || o == "*" || strings.Contains(p.Host, "*") {
				continue
			}
			switch r.IntN(4) {
			case 0:
				return p.Scheme + "://" + p.Host + ":*", true
			case 1:
				return p.Scheme + "://" + p.Host + fmt.Sprintf(":%d", []int{8443, 3000, 8082, 9090, 81}[r.IntN(5)]), true
			case 2:
				return p.Scheme + "://admin." + p.Host, true
			default:
				return p.Scheme + "://*." + p.Host, true
			}
		}
		return "", false
	}
	switch r.IntN(14) {
	case 0, 1, 12, 13: // identical
	case 2, 3, 4: // one more origin on a host that is already there
		if x, ok := sameHostExtra(); ok {
			d.Origins = append(d.Origins, x)
		}
	case 5: // an origin the observed configuration denies
		_, miss := originsFor(*fromConfig(&c))
		if len(miss) > 0 && !(len(d.Origins) == 1 && d.Origins[0] == "*") {
			d.Origins = append(d.Origins, miss[r.IntN(len(miss))])
		}
	case 6: // a prefix of the origin list
		if len(d.Origins) > 1 {
			d.Origins = d.Origins[:len(d.Origins)-1]
		}
	case 7: // another letter case of a method (only the six Fetch normalises are case-insensitive)
		if len(d.Methods) > 0 {
			i := r.IntN(len(d.Methods))
			d.Methods[i] = flipCase(d.Methods[i])
		} else {
			d.Methods = []string{"patch"}
		}
	case 8: // one more / one fewer request header, another letter case
		switch {
		case len(d.RequestHeaders) > 0 && r.IntN(3) == 0:
			d.RequestHeaders = d.RequestHeaders[:len(d.RequestHeaders)-1]
		case len(d.RequestHeaders) > 0 && r.IntN(2) == 0:
			i := r.IntN(len(d.RequestHeaders))
			d.RequestHeaders[i] = flipCase(d.RequestHeaders[i])
		default:
			d.RequestHeaders = append(d.RequestHeaders, []string{"X-D", "X-E", "Zz-Last", "A-First"}[r.IntN(4)])
		}
	case 9:
		d.Credentialed = !d.Credentialed
	case 10:
		d.MaxAgeInSeconds = []int{0, -1, 5, 600, 86400}[r.IntN(5)]
	case 11: // the same policy for other origins
		d.Origins = []string{"https://tenant-b.example.org", "https://example.com"}
	}
	return d
}

// bgBeforeCreate: called by mkMW with the configuration it is about to build. In a
// bystander run, half of the time another tenant is there FIRST.
func bgBeforeCreate(cc cors.Config) {
	if bg.rng == nil || !bg.by || bgDisabled || bg.busy || len(bg.bys) >= 3 || bg.rng.IntN(2) == 0 {
		return
	}
	bg.busy = true
	defer func() { bg.busy = false }()
	catch(func() {
		d := deriveConfig(bg.rng, cc)
		if m, err := cors.NewMiddleware(d); err == nil && m != nil {
			bg.bys = append(bg.bys, &bystander{m, d})
			bg.c.hit("F16_bystander_created_first")
			bg.c.logf("bystander created before the observed middleware: %s", fromConfig(&d))
			bg.followUp = bg.bys[len(bg.bys)-1]
		}
	})
}

// bgAfterCreate: the tenant that was there first does something of its own right after the
// observed middleware has been created (two instances that wrongly share something part
// company at the first change made through one of them).
func bgAfterCreate() {
	b := bg.followUp
	bg.followUp = nil
	if b == nil || bg.busy || bgDisabled || bg.rng.IntN(10) >= 6 {
		return
	}
	bg.busy = true
	defer func() { bg.busy = false }()
	catch(func() {
		switch bg.rng.IntN(5) {
		case 0:
			b.m.Reconfigure(nil)
			bg.c.logf("the bystander that was there first is torn down to passthrough")
		case 1:
			b.m.SetDebug(true)
			bg.c.logf("the bystander that was there first switches debug on")
		case 2:
			b.m.SetDebug(true)
			c2 := cloneConfig(b.cfg)
			b.m.Reconfigure(&c2)
			bg.c.logf("the bystander that was there first switches debug on and reconfigures with its own configuration")
		case 3:
			d := deriveConfig(bg.rng, b.cfg)
			if b.m.Reconfigure(&d) == nil {
				b.cfg = d
			}
			bg.c.logf("the bystander that was there first reconfigures (derived)")
		default:
			d := cors.Config{Origins: []string{"https://tenant-b.example.org"}, Methods: []string{"PUT"}, RequestHeaders: []string{"X-B"}}
			if b.m.Reconfigure(&d) == nil {
				b.cfg = d
			}
			bg.c.logf("the bystander that was there first reconfigures to a policy of its own")
		}
		bg.c.hit("F16_bystander_acted")
	})
}

func smallConfig(c *cors.Config) bool {
	if c == nil {
		return true
	}
	n := len(c.Origins) + len(c.Methods) + len(c.RequestHeaders) + len(c.ResponseHeaders)
	for _, l := range [][]string{c.Origins, c.Methods, c.RequestHeaders, c.ResponseHeaders} {
		for _, s := range l {
			if len(s) > 64 {
				return false
			}
		}
	}
	return n <= 6
}

// repeats: how often the operator call at hand is made (F15).
func repeats(cheap bool) int {
	if bg.rng == nil || !bg.vol || bgDisabled || bg.busy || bg.rng.IntN(100) >= 30 {
		return 1
	}
	if cheap && bg.bigLeft > 0 && bg.rng.IntN(100) < 45 {
		bg.bigLeft--
		return []int{32767, 32768, 32769, 65000, 65535, 65536, 65537, 65536 + 256}[bg.rng.IntN(8)]
	}
	return []int{255, 256, 257, 256, 300, 512, 100, 1024}[bg.rng.IntN(8)]
}

// reconfN is m.Reconfigure(cfg), made once or — in a volume run — N times in a row.
func reconfN(m *cors.Middleware, cfg *cors.Config) error {
	n := repeats(smallConfig(cfg))
	var err error
	for i := 0; i < n; i++ {
		err = m.Reconfigure(cfg)
	}
	if n > 1 && bg.c != nil {
		bg.c.hit("F15_operator_call_repeated")
		bg.c.logf("Reconfigure made %d times in a row (last result: %v)", n, err != nil)
	}
	if err == nil && cfg != nil && bg.lastCfg != nil {
		bg.lastCfg[m] = cloneConfig(*cfg)
	}
	return err
}

// setDebugN is m.SetDebug(b), made once or N times in a row.
func setDebugN(m *cors.Middleware, b bool) {
	n := repeats(true)
	for i := 0; i < n; i++ {
		m.SetDebug(b)
	}
	if n > 1 && bg.c != nil {
		bg.c.hit("F15_operator_call_repeated")
		bg.c.logf("SetDebug(%v) made %d times in a row", b, n)
	}
}

func bgTick(where string) {
	if bg.rng == nil || bgDisabled || bg.busy || !(bg.by || bg.soak) || len(bg.live) == 0 {
		return
	}
	bg.ticks++
	p := 6
	if bg.ticks > 60 {
		p = 1
	}
	if bg.events >= 12 || bg.rng.IntN(100) >= p {
		return
	}
	bg.busy = true
	defer func() { bg.busy = false }()
	bg.events++
	main := bg.live[bg.rng.IntN(len(bg.live))]
	var mc cors.Config
	pan := catch(func() {
		if c := main.Config(); c != nil {
			mc = *c
			bg.lastCfg[main] = cloneConfig(mc)
		} else if lc, ok := bg.lastCfg[main]; ok {
			mc = cloneConfig(lc)
		}
	})
	if pan != "" || len(mc.Origins) == 0 {
		return
	}
	doSoak := bg.soak && (!bg.by || bg.rng.IntN(2) == 0)
	catch(func() {
		if doSoak {
			bgSoak(main, mc, where)
		} else {
			bgBystander(mc, where)
		}
	})
}

func bgSoak(main *cors.Middleware, mc cors.Config, where string) {
	n := []int{257, 257, 300, 300, 520, 1100, 1100, 4200}[bg.rng.IntN(8)]
	if bg.bigLeft > 0 && bg.rng.IntN(100) < 6 {
		bg.bigLeft--
		n = 66000
	}
	if bg.soakCap > 0 && n > bg.soakCap {
		n = bg.soakCap
	}
	suite := probeSuite(*fromConfig(&mc))
	srv := newServer(main.Wrap)
	mode := bg.rng.IntN(3)
	q0 := suite[bg.rng.IntN(len(suite))]
	for i := 0; i < n; i++ {
		switch mode {
		case 0: // one request, again and again
			srv.do(q0)
		case 1: // the suite, cycled
			srv.do(suite[i%len(suite)])
		default: // as many distinct origins
			o := fmt.Sprintf("https://s%d.soak.example", i)
			if i%3 == 2 {
				srv.do(preflight(o, "PUT", nil, false))
			} else {
				srv.do(Req{Method: "GET", H: []HV{{hOrigin, []string{o}}}})
			}
		}
	}
	bg.c.hit("F15_soaked_with_requests")
	bg.c.logf("soak before %s: %d requests (mode %d) through a middleware of the run", where, n, mode)
}

func bgBystander(mc cors.Config, where string) {
	r := bg.rng
	kind := r.IntN(100)
	if len(bg.bys) == 0 && kind >= 45 {
		kind = r.IntN(45)
	}
	switch {
	case kind < 18 && len(bg.bys) < 3: // another tenant arrives
		d := deriveConfig(r, mc)
		if m, err := cors.NewMiddleware(d); err == nil && m != nil {
			bg.bys = append(bg.bys, &bystander{m, d})
			bg.c.hit("F16_bystander_created")
			bg.c.logf("bystander created before %s: %s", where, fromConfig(&d))
		} else {
			bg.c.hit("F16_bystander_rejected")
		}
	case kind < 36 && len(bg.bys) < 3: // ... by way of the zero value
		d := deriveConfig(r, mc)
		m := new(cors.Middleware)
		if m.Reconfigure(&d) == nil {
			bg.bys = append(bg.bys, &bystander{m, d})
			bg.c.hit("F16_bystander_created")
			bg.c.logf("bystander (zero value, reconfigured) before %s: %s", where, fromConfig(&d))
		}
	case kind < 45: // a tenant whose configuration is rejected: a related configuration with a documented violation
		d := deriveConfig(r, mc)
		d.MaxAgeInSeconds = -5
		_, err := cors.NewMiddleware(d)
		if err != nil {
			k := 0
			for range cfgerrors.All(err) { // ... looks at the first problem only
				k++
				break
			}
		}
		if len(bg.bys) > 0 {
			b := bg.bys[r.IntN(len(bg.bys))]
			b.m.Reconfigure(&d)
		}
		bg.c.hit("F16_bystander_rejected")
		bg.c.logf("bystander configuration rejected before %s", where)
	default:
		b := bg.bys[r.IntN(len(bg.bys))]
		switch k := r.IntN(10); {
		case k < 2:
			d := deriveConfig(r, mc)
			if b.m.Reconfigure(&d) == nil {
				b.cfg = d
			}
			bg.c.logf("bystander reconfigured (derived) before %s", where)
		case k < 4:
			c2 := cloneConfig(b.cfg)
			b.m.Reconfigure(&c2)
			bg.c.logf("bystander reconfigured with its own configuration again before %s", where)
		case k < 5:
			b.m.Reconfigure(b.m.Config())
			bg.c.logf("bystander: Reconfigure(Config()) before %s", where)
		case k < 6:
			b.m.Reconfigure(nil)
			bg.c.logf("bystander torn down to passthrough before %s", where)
		case k < 8:
			on := r.IntN(2) == 0
			b.m.SetDebug(on)
			bg.c.logf("bystander SetDebug(%v) before %s", on, where)
		default:
			// the bystander is asked what the observed middleware is asked, above all what it denies
			suite := probeSuite(*fromConfig(&mc))
			srv := newServer(b.m.Wrap)
			_, miss := originsFor(*fromConfig(&mc))
			// (first of all what the bystander allows and the observed middleware does not list)
			for _, o := range b.cfg.Origins {
				if o != "*" && !strings.Contains(o, "*") && !contains(mc.Origins, o) {
					miss = append([]string{o, o}, miss...)
					srv.do(Req{Method: "GET", H: []HV{{hOrigin, []string{o}}}})
				}
			}
			for i, n := 0, 2+r.IntN(4); i < n; i++ {
				if len(miss) > 0 && r.IntN(2) == 0 {
					o := miss[r.IntN(len(miss))]
					srv.do(Req{Method: "GET", H: []HV{{hOrigin, []string{o}}}})
					srv.do(preflight(o, "PUT", nil, false))
				} else {
					srv.do(suite[r.IntN(len(suite))])
				}
			}
			bg.c.logf("bystander served requests before %s", where)
		}
		bg.c.hit("F16_bystander_acted")
	}
}
