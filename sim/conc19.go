//go:build concsim

package main

// conc19.go — the concurrent-consumers world of C19: several consumer tasks
// traverse error values with cfgerrors.All at the same time. As in c07.go the
// tasks are real goroutines of which exactly one is runnable; the baton is
// passed at simrt.Yield inside the (instrumented) library and at the
// simulator-owned seam in every consumer's loop body, and who runs next is read
// from the plan. Error values are immutable and every consumer owns its loop
// state, so each traversal must yield exactly what the independent flattening
// yields — whatever the other tasks are in the middle of.

import (
	"fmt"
	"hash/fnv"
	"iter"
	"runtime"
	"strings"
	"sync"

	"github.com/jub0bs/cors"
	"github.com/jub0bs/cors/cfgerrors"
	"github.com/jub0bs/cors/simrt"
)

const concBuild = true

const c19ConcRule = "one case = 1..3 seeded join trees (bushy or a spine of up to 20 nested joins) + 2..3 consumer tasks x 1..3 traversals (range+break, raw callback returning false, iter.Pull+stop, each full or cancelled at a planned yield; on the task's own iterator value or on ONE iter.Seq value shared by all tasks; or NewMiddleware on an invalid configuration followed by a full traversal of its error) + a schedule: default task order and 1..5 burst preemptions over the measured schedule points (statement granularity inside cfgerrors and the packages NewMiddleware runs through, plus a seam in every consumer's loop body), biased to points inside cfgerrors; every second run belongs to an enumerating SWEEP block (64 runs sharing one two-task scenario: run i suspends the first traversal at its i-th schedule point inside cfgerrors, the second traversal starts there and is itself suspended at one of its loop-body seams, the first runs to completion, then the second); every traversal is compared with the independent flattening (pointer identity; messages for library errors); distinct = distinct plan hash; non-trivial = at least one context switch happened while two traversals were in progress"

// ---------------------------------------------------------------- scheduler (a plan-agnostic cut of c07.go's)

func (t *mtask) mine() bool { return mineAt(&t.lastSP, t.goid) }

type mtask struct {
	lastSP    uintptr
	goid      int64
	id        int
	wake      chan struct{}
	done      bool
	blocked   bool
	opIdx     int
	yieldInOp int
	inTrav    bool // between the first and the last yield of a traversal
}

type msched struct {
	c        *Ctx
	tasks    []*mtask
	nOps     []int
	order    []int
	run1     func(task, op int)
	cur      int
	ctl      chan event
	stack    []frame
	preempts map[[3]int]CPre
	yields   int64
	sig      uint64
	switches int
	overlap  bool
	deadlock string
	measure  bool
	counts   [][]int
	labels   [][][]string
	onceBusy map[*sync.Once]bool
}

func (s *msched) mix(task int, label string) {
	h := fnv.New64a()
	fmt.Fprintf(h, "%d|%d|%s", s.sig, task, label)
	s.sig = h.Sum64()
}

func (s *msched) yield(label, class string) {
	t := s.tasks[s.cur]
	if simrt.TreeStartsGoroutines && !t.mine() {
		return // a goroutine the library started (or the coroutine of iter.Pull): it runs free
	}
	s.yields++
	if s.yields > yieldCap {
		fatal2("watchdog: more than %d schedule points in one run (livelock?)", yieldCap)
	}
	y := t.yieldInOp
	t.yieldInOp++
	if s.measure {
		s.counts[t.id][t.opIdx]++
		s.labels[t.id][t.opIdx] = append(s.labels[t.id][t.opIdx], label)
		return
	}
	pr, ok := s.preempts[[3]int{t.id, t.opIdx, y}]
	if !ok {
		return
	}
	if pr.To == t.id || pr.To < 0 || pr.To >= len(s.tasks) || s.tasks[pr.To].done || s.tasks[pr.To].blocked {
		return
	}
	s.c.hit("F3_preemption_fired")
	if strings.Contains(label, "cfgerrors") {
		s.c.hit("preempted_inside_cfgerrors")
	}
	if t.inTrav {
		for _, u := range s.tasks {
			if u != t && u.inTrav {
				s.c.hit("two_traversals_suspended_at_once")
				s.overlap = true
			}
		}
	}
	s.c.logf("t%d preempted at %s (op %d, point %d) -> t%d x%d", t.id, label, t.opIdx, y, pr.To, pr.Burst)
	s.mix(t.id, label)
	s.handoff(event{kind: evPreempt, to: pr.To, burst: pr.Burst})
}

func (s *msched) handoff(ev event) {
	t := s.tasks[s.cur]
	s.ctl <- ev
	<-t.wake
}

func (s *msched) acquire(try func() bool, label string) {
	t := s.tasks[s.cur]
	if simrt.TreeStartsGoroutines && !t.mine() {
		for !try() {
			runtime.Gosched()
		}
		return
	}
	for !try() {
		if s.measure {
			fatal2("a lock is held across the sequential dry run at %s", label)
		}
		s.c.logf("t%d parks on lock at %s", t.id, label)
		t.blocked = true
		s.mix(t.id, "park:"+label)
		s.handoff(event{kind: evBlocked})
	}
}

func (s *msched) released() {
	if simrt.TreeStartsGoroutines && !s.tasks[s.cur].mine() {
		return
	}
	for _, t := range s.tasks {
		t.blocked = false
	}
}

func (s *msched) onceDo(o *sync.Once, f func()) {
	t := s.tasks[s.cur]
	if simrt.TreeStartsGoroutines && !t.mine() {
		o.Do(f)
		return
	}
	if s.onceBusy == nil {
		s.onceBusy = map[*sync.Once]bool{}
	}
	for s.onceBusy[o] {
		t.blocked = true
		s.mix(t.id, "park:once")
		s.handoff(event{kind: evBlocked})
	}
	s.onceBusy[o] = true
	defer func() {
		delete(s.onceBusy, o)
		for _, u := range s.tasks {
			u.blocked = false
		}
	}()
	o.Do(f)
}

func (s *msched) pickDefault() int {
	for _, id := range s.order {
		if id >= 0 && id < len(s.tasks) && !s.tasks[id].done && !s.tasks[id].blocked {
			return id
		}
	}
	for id, t := range s.tasks {
		if !t.done && !t.blocked {
			return id
		}
	}
	return -1
}

func (s *msched) popTo() int {
	n := len(s.stack)
	ret := s.stack[n-1].returnTo
	s.stack = s.stack[:n-1]
	if !s.tasks[ret].done && !s.tasks[ret].blocked {
		return ret
	}
	return s.pickDefault()
}

func (s *msched) control() {
	next := s.pickDefault()
	for next >= 0 {
		if next != s.cur {
			s.switches++
		}
		s.cur = next
		s.tasks[next].wake <- struct{}{}
		ev := <-s.ctl
		t := s.tasks[s.cur]
		switch ev.kind {
		case evPreempt:
			s.stack = append(s.stack, frame{task: ev.to, opsLeft: ev.burst, returnTo: t.id})
			next = ev.to
		case evOpDone:
			next = t.id
			if n := len(s.stack); n > 0 && s.stack[n-1].task == t.id {
				s.stack[n-1].opsLeft--
				if s.stack[n-1].opsLeft <= 0 {
					next = s.popTo()
				}
			}
		case evBlocked, evDone:
			if ev.kind == evDone {
				t.done = true
			}
			if n := len(s.stack); n > 0 && s.stack[n-1].task == t.id {
				next = s.popTo()
			} else {
				next = s.pickDefault()
			}
		}
		if next >= 0 && (s.tasks[next].done || s.tasks[next].blocked) {
			next = s.pickDefault()
		}
	}
	for _, t := range s.tasks {
		if !t.done {
			s.deadlock = fmt.Sprintf("every live task is parked on a lock that is never released (t%d at op %d, ...)", t.id, t.opIdx)
			return
		}
	}
}

func (s *msched) runTask(t *mtask) {
	if simrt.TreeStartsGoroutines {
		t.goid = curGoid()
	}
	<-t.wake
	for i := 0; i < s.nOps[t.id]; i++ {
		t.opIdx, t.yieldInOp = i, 0
		s.yield("op-start", "seam")
		s.run1(t.id, i)
		t.inTrav = false
		if i < s.nOps[t.id]-1 && !s.measure {
			s.handoff(event{kind: evOpDone})
		}
	}
	s.ctl <- event{kind: evDone}
}

func (s *msched) run() {
	if len(s.tasks) == 0 {
		return
	}
	simrt.YieldHook, simrt.AcquireHook, simrt.ReleasedHook, simrt.OnceHook = s.yield, s.acquire, s.released, s.onceDo
	defer func() { simrt.YieldHook, simrt.AcquireHook, simrt.ReleasedHook, simrt.OnceHook = nil, nil, nil, nil }()
	for _, t := range s.tasks {
		go s.runTask(t)
	}
	s.control()
}

// ---------------------------------------------------------------- the world

type c19World struct {
	p      *C19Conc
	errs   []error
	want   [][]error
	shared []iter.Seq[error]
	got    [][][]error // per task, per op: yielded errors (tree ops)
	gotMsg [][][]string
	after  [][]int // callback consumer: calls after it returned false
	pan    [][]string
	cfgErr [][]error // cfg ops: the error NewMiddleware returned in the concurrent run
}

func newC19World(p *C19Conc) *c19World {
	w := &c19World{p: p}
	for _, t := range p.Trees {
		b := &errBuilder{leaves: map[int]error{}}
		e := b.build(t)
		w.errs = append(w.errs, e)
		w.want = append(w.want, flatten(e))
		w.shared = append(w.shared, cfgerrors.All(e))
	}
	for _, t := range p.Tasks {
		w.got = append(w.got, make([][]error, len(t.Ops)))
		w.gotMsg = append(w.gotMsg, make([][]string, len(t.Ops)))
		w.after = append(w.after, make([]int, len(t.Ops)))
		w.pan = append(w.pan, make([]string, len(t.Ops)))
		w.cfgErr = append(w.cfgErr, make([]error, len(t.Ops)))
	}
	return w
}

func (w *c19World) newSched(c *Ctx, measure bool) *msched {
	s := &msched{c: c, ctl: make(chan event), preempts: map[[3]int]CPre{}, measure: measure, order: w.p.Order}
	if !measure {
		for _, pr := range w.p.Preempts {
			s.preempts[[3]int{pr.Task, pr.Op, pr.Yield}] = pr
		}
	}
	for i, t := range w.p.Tasks {
		s.tasks = append(s.tasks, &mtask{id: i, wake: make(chan struct{})})
		s.nOps = append(s.nOps, len(t.Ops))
		s.counts = append(s.counts, make([]int, len(t.Ops)))
		s.labels = append(s.labels, make([][]string, len(t.Ops)))
	}
	s.run1 = func(task, i int) { w.pan[task][i] = catch(func() { w.exec(s, task, i) }) }
	return s
}

func (w *c19World) exec(s *msched, task, i int) {
	op := w.p.Tasks[task].Ops[i]
	t := s.tasks[task]
	body := func() { betweenSteps("the next yield (a slow consumer)"); s.yield("seam:body", "seam") } // the consumer's loop body: a schedule point while the traversal is suspended
	if op.Kind == "cfg" {
		bad := plantAll(*op.Cfg, op.Planted)
		cc := bad.Config()
		_, err := cors.NewMiddleware(cc)
		w.cfgErr[task][i] = err
		if err == nil {
			return
		}
		t.inTrav = true
		for e := range cfgerrors.All(err) {
			if e == nil {
				w.gotMsg[task][i] = append(w.gotMsg[task][i], "<nil>")
			} else {
				w.gotMsg[task][i] = append(w.gotMsg[task][i], e.Error())
			}
			body()
		}
		return
	}
	tr := op.Tree % len(w.errs)
	t.inTrav = true
	seq := w.shared[tr]
	if !op.Shared {
		seq = cfgerrors.All(w.errs[tr])
	}
	switch op.Kind {
	case "callback":
		k, cancelled := 0, false
		seq(func(e error) bool {
			if cancelled {
				w.after[task][i]++
				return false
			}
			w.got[task][i] = append(w.got[task][i], e)
			body()
			if k == op.Break {
				cancelled = true
				return false
			}
			k++
			return true
		})
	case "pull":
		next, stop := iter.Pull(seq)
		defer stop()
		for k := 0; ; k++ {
			e, ok := next()
			if !ok {
				break
			}
			w.got[task][i] = append(w.got[task][i], e)
			body()
			if k == op.Break {
				stop()
				if _, ok := next(); ok {
					w.after[task][i]++
				}
				break
			}
		}
	default: // range
		k := 0
		for e := range seq {
			w.got[task][i] = append(w.got[task][i], e)
			body()
			if k == op.Break {
				break
			}
			k++
		}
	}
}

func execC19Conc(p *C19Plan, c *Ctx) *Violation {
	bgDisabled = true
	cp := p.Conc
	if len(cp.Tasks) == 0 {
		return nil
	}
	for _, t := range cp.Tasks {
		for _, op := range t.Ops {
			if op.Kind != "cfg" && len(cp.Trees) == 0 {
				return nil // (a shrunk plan that lost its trees)
			}
			if op.Kind == "cfg" && op.Cfg == nil {
				return nil
			}
		}
	}
	// sequential reference for the library's own errors (hooks off)
	ref := map[[2]int][]string{}
	for ti, t := range cp.Tasks {
		for oi, op := range t.Ops {
			if op.Kind != "cfg" {
				continue
			}
			bad := plantAll(*op.Cfg, op.Planted)
			var msgs []string
			if pan := catch(func() {
				_, err := cors.NewMiddleware(bad.Config())
				for _, e := range flatten(err) {
					if e != nil {
						msgs = append(msgs, e.Error())
					}
				}
			}); pan != "" {
				return &Violation{Class: "panic", Key: "config", Detail: fmt.Sprintf("configuration panicked: %s cfg=%s", pan, bad)}
			}
			ref[[2]int{ti, oi}] = msgs
		}
	}
	w := newC19World(cp)
	s := w.newSched(c, false)
	s.run()
	c.Sig = s.sig
	c.Nontrivial = s.overlap
	if cp.Sweep {
		c.hit("sweep_run")
	}
	if s.deadlock != "" {
		return &Violation{Class: "deadlock", Key: "conc", Detail: s.deadlock}
	}
	for ti, t := range cp.Tasks {
		for oi, op := range t.Ops {
			what := fmt.Sprintf("task %d op %d (%s", ti, oi, op.Kind)
			if op.Kind != "cfg" {
				what += fmt.Sprintf(" over error value %d", op.Tree%len(w.errs))
				if op.Shared {
					what += ", the shared iterator value"
					c.hit("shared_iterator_value_across_tasks")
				}
				if op.Break >= 0 {
					what += fmt.Sprintf(", cancelling at yield %d", op.Break)
				}
			}
			what += ")"
			if pan := w.pan[ti][oi]; pan != "" {
				return &Violation{Class: "panic-under-concurrency", Key: op.Kind, Detail: fmt.Sprintf("%s panicked while other traversals were in progress: %s", what, pan)}
			}
			if op.Kind == "cfg" {
				c.hit("library_error_traversed_under_concurrency")
				want := ref[[2]int{ti, oi}]
				if strings.Join(w.gotMsg[ti][oi], "\n") != strings.Join(want, "\n") {
					return &Violation{Class: "wrong-leaves-under-concurrency", Key: "cfg", Detail: fmt.Sprintf("%s: All yields %d errors %q while other traversals are in progress; alone it yields %d %q", what, len(w.gotMsg[ti][oi]), w.gotMsg[ti][oi], len(want), want)}
				}
				continue
			}
			if op.Kind == "pull" {
				c.hit("pull_consumer_under_concurrency")
			}
			want := w.want[op.Tree%len(w.errs)]
			if op.Break >= 0 {
				c.hit("F8_cancel_under_concurrency")
				want = want[:min(op.Break+1, len(want))]
			}
			if w.after[ti][oi] > 0 {
				return &Violation{Class: "yield-after-cancel", Key: op.Kind, Detail: fmt.Sprintf("%s: the consumer was called %d more time(s) after it had cancelled", what, w.after[ti][oi])}
			}
			if !sameErrs(w.got[ti][oi], want) {
				return &Violation{Class: "wrong-leaves-under-concurrency", Key: op.Kind, Detail: fmt.Sprintf("%s saw %d errors %v while other traversals were in progress, want %d %v", what, len(w.got[ti][oi]), w.got[ti][oi], len(want), want)}
			}
		}
	}
	return nil
}

// ---------------------------------------------------------------- generation

func c19DryRun(cp *C19Conc) ([][]int, [][][]string) {
	w := newC19World(cp)
	s := w.newSched(newCtx(false), true)
	s.run()
	return s.counts, s.labels
}

func genC19Op(r *R, nTrees int, sizes []int) C19Op {
	if r.P(0.15) {
		c := genCfg(r)
		return C19Op{Kind: "cfg", Cfg: &c, Planted: genPlanted(r, r.Range(1, 6)), Break: -1}
	}
	op := C19Op{Kind: pick(r, []string{"range", "range", "range", "callback", "pull"}), Tree: r.Intn(nTrees), Shared: r.P(0.35), Break: -1}
	if n := sizes[op.Tree]; n > 0 && r.P(0.4) {
		op.Break = r.Intn(n)
	}
	return op
}

func genC19Trees(r *R) ([]TNode, []int) {
	var trees []TNode
	var sizes []int
	for i, n := 0, r.Range(1, 3); i < n; i++ {
		id := 0
		var t TNode
		if r.P(0.2) {
			t = genSpine(r, r.Range(3, 20), &id)
		} else {
			t = genTree(r, r.Range(1, 4), &id)
		}
		trees = append(trees, t)
		b := &errBuilder{leaves: map[int]error{}}
		sizes = append(sizes, len(flatten(b.build(t))))
	}
	return trees, sizes
}

func hotPoints(labels []string, want string) []int {
	var out []int
	for i, l := range labels {
		if strings.Contains(l, want) {
			out = append(out, i)
		}
	}
	return out
}

const c19SweepBlock = 64

func genC19Sweep(seed, idx uint64) any {
	block, pos := idx/c19SweepBlock, int(idx%c19SweepBlock)
	r := newR(seed^0x53574545505f3139, block)
	cp := &C19Conc{Sweep: true}
	var sizes []int
	cp.Trees, sizes = genC19Trees(r)
	cp.Tasks = []C19Task{{Ops: []C19Op{genC19Op(r, len(cp.Trees), sizes)}}, {Ops: []C19Op{genC19Op(r, len(cp.Trees), sizes)}}}
	if r.P(0.3) {
		cp.Tasks[1].Ops = append(cp.Tasks[1].Ops, genC19Op(r, len(cp.Trees), sizes))
	}
	cp.Order = []int{0, 1}
	_, labels := c19DryRun(cp)
	hot := hotPoints(labels[0][0], "cfgerrors")
	if len(hot) == 0 {
		for i := range labels[0][0] {
			hot = append(hot, i)
		}
	}
	if len(hot) == 0 {
		return &C19Plan{Conc: cp}
	}
	// the first traversal is suspended at its i-th point inside cfgerrors (sampled evenly if there are more than a block has runs) ...
	i := pos % len(hot)
	if len(hot) > c19SweepBlock {
		i = pos * len(hot) / c19SweepBlock
	}
	cp.Preempts = []CPre{{Task: 0, Op: 0, Yield: hot[i], To: 1, Burst: len(cp.Tasks[1].Ops)}}
	// ... the second one starts there and is itself suspended at one of its loop-body seams, so that the first
	// runs to completion while the second is in the middle
	if seams := hotPoints(labels[1][0], "seam:body"); len(seams) > 0 {
		j := (pos / max(1, min(len(hot), c19SweepBlock))) % len(seams)
		if len(hot) >= c19SweepBlock {
			j = pos % len(seams)
		}
		cp.Preempts = append(cp.Preempts, CPre{Task: 1, Op: 0, Yield: seams[j], To: 0, Burst: 1})
	}
	return &C19Plan{Conc: cp}
}

func genC19Conc(r *R, tier string) any {
	bgDisabled = true
	if r.Run%2 == 1 {
		return genC19Sweep(r.Seed, r.Run/2)
	}
	cp := &C19Conc{}
	var sizes []int
	cp.Trees, sizes = genC19Trees(r)
	for i, n := 0, r.Range(2, 3); i < n; i++ {
		var t C19Task
		for k := r.Range(1, 3); k > 0; k-- {
			t.Ops = append(t.Ops, genC19Op(r, len(cp.Trees), sizes))
		}
		cp.Tasks = append(cp.Tasks, t)
	}
	cp.Order = r.Perm(len(cp.Tasks))
	counts, labels := c19DryRun(cp)
	for i, d := 0, r.Range(1, 5); i < d; i++ {
		vt := r.Intn(len(cp.Tasks))
		vo := r.Intn(len(cp.Tasks[vt].Ops))
		ny := counts[vt][vo]
		if ny == 0 {
			continue
		}
		y := r.Intn(ny)
		if r.P(0.7) {
			hot := append(hotPoints(labels[vt][vo], "cfgerrors"), hotPoints(labels[vt][vo], "seam:body")...)
			if len(hot) > 0 {
				y = pick(r, hot)
			}
		}
		to := r.Intn(len(cp.Tasks))
		if to == vt {
			to = (to + 1) % len(cp.Tasks)
		}
		cp.Preempts = append(cp.Preempts, CPre{Task: vt, Op: vo, Yield: y, To: to, Burst: pick(r, []int{1, 1, 1, 2})})
	}
	return &C19Plan{Conc: cp}
}

func shrinkC19Conc(p *C19Plan) []any {
	cp := p.Conc
	var out []any
	mk := func(f func(q *C19Conc)) {
		q := *cp
		q.Tasks = nil
		for _, t := range cp.Tasks {
			q.Tasks = append(q.Tasks, C19Task{Ops: append([]C19Op{}, t.Ops...)})
		}
		q.Preempts = append([]CPre{}, cp.Preempts...)
		q.Trees = append([]TNode{}, cp.Trees...)
		f(&q)
		out = append(out, &C19Plan{Conc: &q})
	}
	for i := range cp.Preempts {
		i := i
		mk(func(q *C19Conc) { q.Preempts = append(q.Preempts[:i], q.Preempts[i+1:]...) })
	}
	for ti, t := range cp.Tasks {
		for oi := range t.Ops {
			ti, oi := ti, oi
			if len(t.Ops) > 1 {
				mk(func(q *C19Conc) {
					q.Tasks[ti].Ops = append(q.Tasks[ti].Ops[:oi], q.Tasks[ti].Ops[oi+1:]...)
					var ps []CPre
					for _, pr := range q.Preempts {
						if pr.Task == ti && pr.Op == oi {
							continue
						}
						if pr.Task == ti && pr.Op > oi {
							pr.Op--
						}
						ps = append(ps, pr)
					}
					q.Preempts = ps
				})
			}
			if t.Ops[oi].Break >= 0 {
				mk(func(q *C19Conc) { q.Tasks[ti].Ops[oi].Break = -1 })
			}
			if t.Ops[oi].Kind == "pull" || t.Ops[oi].Kind == "callback" {
				mk(func(q *C19Conc) { q.Tasks[ti].Ops[oi].Kind = "range" })
			}
			if t.Ops[oi].Shared {
				mk(func(q *C19Conc) { q.Tasks[ti].Ops[oi].Shared = false })
			}
		}
	}
	for i, t := range cp.Trees {
		i := i
		for _, st := range shrinkTree(t) {
			st := st
			mk(func(q *C19Conc) { q.Trees[i] = st })
		}
	}
	return out
}
