package main

// c11.go — histsim with a scripted wrapped handler and a recording
// ResponseWriter (the two I/O seams of the middleware): exactly-once /
// same-identity / conservation invariants plus an independent preflight
// predicate, over histories that move one middleware through passthrough and
// several configurations.

import (
	"encoding/json"
	"fmt"
	"net/http"
	"sort"
	"strings"
	"time"

	"github.com/jub0bs/cors"
)

type HdrOp struct {
	Op string `json:"op"` // set | add | del
	K  string `json:"k"`
	V  string `json:"v,omitempty"`
}

type Script struct {
	Status  int      `json:"status"` // 0: never calls WriteHeader explicitly
	Body    []string `json:"body,omitempty"`
	Ops     []HdrOp  `json:"ops,omitempty"`      // before WriteHeader
	LateOps []HdrOp  `json:"late_ops,omitempty"` // after WriteHeader / first Write
}

type C11Step struct {
	Kind  string `json:"kind"` // reconf | reconf_nil | setdebug
	Cfg   int    `json:"cfg,omitempty"`
	Debug bool   `json:"debug,omitempty"`
}

type C11Plan struct {
	Cfgs      []Cfg     `json:"cfgs"`
	StartZero bool      `json:"start_zero"`
	Steps     []C11Step `json:"steps"`
	Presets   [][]HV    `json:"presets"`
	Scripts   []Script  `json:"scripts"`
	Extra     []Req     `json:"extra,omitempty"` // additional seeded requests beyond the grid
	Salt      int       `json:"salt"`            // rotates presets/scripts over the grid
	Noise     [][]HV    `json:"noise,omitempty"` // bystander request headers added to every other request
}

type c11 struct{}

func init() { register(c11{}) }

func (c11) ID() string    { return "C11" }
func (c11) Level() string { return "exploration" }
func (c11) Rule() string {
	return "one case = a history moving one middleware through passthrough and 1..3 configurations (Reconfigure, Reconfigure(nil), SetDebug); after every step the FULL grid {method in GET,POST,OPTIONS,PUT,HEAD,options} x {Origin absent / zero-length list / \"\" / one value / two values} x {Access-Control-Request-Method likewise} plus seeded extra requests is sent, each with a seeded pre-set response header map and a seeded scripted handler (status, body chunks, Set/Add/Del on arbitrary names incl. Vary and CORS names, header writes after WriteHeader); two thirds of the cases go through ONE handler wrapped at creation and kept across the whole history; the handler script is replayed on a deep copy of what the handler saw and compared with the real header map; distinct = distinct plan hash; non-trivial = the history contains both a configured and a passthrough phase, or at least two configurations"
}
func (c11) Budget(tier string) (int, time.Duration) {
	if tier == "thorough" {
		return 1_500_000, 10 * time.Minute
	}
	return 40_000, 40 * time.Second
}
func (c11) Assumptions() []string {
	return []string{
		"isPreflight(r) := method is exactly OPTIONS and >=1 Origin field line and >=1 Access-Control-Request-Method field line (from the property statement / Fetch), independent of headers.First",
		"for preflights only 'handler never invoked, empty body' is judged; status and CORS headers of preflight responses belong to C02/C03/C16",
		"for all other requests: exactly one handler invocation with the identical *http.Request and http.ResponseWriter; between the pre-set header map and the map the handler sees only these differences: values appended to Vary (pre-set values kept, in order) and Access-Control-Allow-Origin/-Allow-Credentials/-Expose-Headers set; no WriteHeader/Write before the handler, no writer call and no header-map change after it returns",
		"whether the middleware is configured is taken from the plan (last successful Reconfigure non-nil); all generated configurations are valid by construction, a rejected one abandons the run",
	}
}
func (c11) Parties() map[string]string {
	return map[string]string{"cors.Middleware": "real", "wrapped handler": "stub (scripted, records invocation count and argument identity)", "ResponseWriter": "stub (records every Header/WriteHeader/Write call)", "preflight predicate": "model (independent)", "net/http server + client over net.Pipe (wire world, a few exchanges per run)": "real (stdlib)"}
}
func (c11) FaultKinds() []string {
	return []string{"handler_writes_after_writeheader", "handler_deletes_cors_header", "handler_sets_vary", "preset_vary_present", "preset_cors_header_present", "zero_length_header_list", "multi_valued_origin"}
}
func (c11) Probes() []string {
	return []string{"preflight_on_configured", "preflight_on_passthrough", "non_preflight_options_with_origin", "actual_request_with_preset", "handler_invoked_once", "reconfigure_to_passthrough_and_back", "via_long_lived_wrapped_handler", "bystander_request_headers", "head_serialised_after_the_next_request", "wire_world_compared"}
}

var c11HdrNames = []string{"Vary", "Access-Control-Allow-Origin", "Access-Control-Allow-Credentials", "Access-Control-Expose-Headers",
	"Access-Control-Allow-Methods", "Access-Control-Max-Age", "Content-Type", "X-Foo", "Cache-Control", "Set-Cookie", "X-Powered-By"}
var c11HdrVals = []string{"before", "Origin", "*", "true", "https://example.com", "x-foo", "text/plain", "a, b", ""}

func genHdrOps(r *R, n int) []HdrOp {
	var ops []HdrOp
	for i := 0; i < n; i++ {
		ops = append(ops, HdrOp{Op: pick(r, []string{"set", "add", "add", "del"}), K: pick(r, c11HdrNames), V: pick(r, c11HdrVals)})
	}
	return ops
}

func (c11) Gen(r *R, tier string) any {
	allowHugeOriginLists = false
	observeUnknownAPI = false
	p := &C11Plan{StartZero: r.P(0.5), Salt: r.Intn(1 << 12)}
	n := r.Range(1, 3)
	for i := 0; i < n; i++ {
		p.Cfgs = append(p.Cfgs, genCfg(r))
	}
	k := r.Range(1, 5)
	for i := 0; i < k; i++ {
		switch x := r.Intn(10); {
		case x < 6:
			p.Steps = append(p.Steps, C11Step{Kind: "reconf", Cfg: r.Intn(n)})
		case x < 8:
			p.Steps = append(p.Steps, C11Step{Kind: "reconf_nil"})
		default:
			p.Steps = append(p.Steps, C11Step{Kind: "setdebug", Debug: r.P(0.5)})
		}
	}
	for i := 0; i < 4; i++ {
		var pre []HV
		for _, k := range subset(r, c11HdrNames, 0.25) {
			vs := []string{pick(r, c11HdrVals)}
			if r.P(0.3) {
				vs = append(vs, pick(r, c11HdrVals))
			}
			pre = append(pre, HV{k, vs})
		}
		p.Presets = append(p.Presets, pre)
		sc := Script{Status: pick(r, []int{0, 200, 200, 201, 204, 404, 500}), Ops: genHdrOps(r, r.Intn(4)), LateOps: genHdrOps(r, r.Intn(3))}
		for j := r.Intn(3); j > 0; j-- {
			sc.Body = append(sc.Body, pick(r, []string{"", "hello", "x", "body-chunk"}))
		}
		p.Scripts = append(p.Scripts, sc)
	}
	for i := r.Range(1, 3); i > 0; i-- {
		p.Noise = append(p.Noise, genNoise(r))
	}
	// extra requests: drawn from the probe suites (allowed origins, real preflights, lists)
	for i := 0; i < 12; i++ {
		s := probeSuite(p.Cfgs[r.Intn(n)])
		p.Extra = append(p.Extra, s[r.Intn(len(s))])
	}
	return p
}

func (c11) Decode(b []byte) (any, error) {
	var p C11Plan
	err := json.Unmarshal(b, &p)
	return &p, err
}

// ---- the independent preflight predicate

func isPreflightC11(r *http.Request) bool {
	if r.Method != "OPTIONS" {
		return false
	}
	return len(r.Header["Origin"]) >= 1 && len(r.Header["Access-Control-Request-Method"]) >= 1
}

// ---- scripted handler with identity recording

type scriptHandler struct {
	sc       Script
	count    int
	sameReq  bool
	sameW    bool
	wantReq  *http.Request
	wantW    http.ResponseWriter
	reqSent  string      // fingerprint of the request (method + headers) as it was sent
	reqSeen  string      // ... as the handler received it
	entry    http.Header // deep copy of the header map on entry
	exit     http.Header // deep copy on return
	callsIn  int         // number of writer calls recorded at entry
	callsOut int         // ... at return
	rec      *recWriter
}

func applyOps(h http.Header, ops []HdrOp) {
	for _, o := range ops {
		switch o.Op {
		case "set":
			h[o.K] = []string{o.V}
		case "add":
			h[o.K] = append(h[o.K], o.V)
		case "del":
			delete(h, o.K)
		}
	}
}

func (s *scriptHandler) ServeHTTP(w http.ResponseWriter, r *http.Request) {
	s.count++
	s.sameReq = r == s.wantReq
	s.sameW = w == s.wantW
	s.callsIn = len(s.rec.calls)
	s.reqSeen = r.Method + " " + headerFP(r.Header)
	s.entry = cloneHeader(s.rec.h)
	applyOps(w.Header(), s.sc.Ops)
	if s.sc.Status != 0 {
		w.WriteHeader(s.sc.Status)
	}
	for _, chunk := range s.sc.Body {
		w.Write([]byte(chunk))
	}
	applyOps(w.Header(), s.sc.LateOps)
	s.exit = cloneHeader(s.rec.h)
	s.callsOut = len(s.rec.calls)
}

func gridRequests() []Req {
	shapes := func(k string) [][]HV {
		return [][]HV{
			nil,
			{{k, []string{}}},
			{{k, []string{""}}},
			{{k, []string{"X"}}},
			{{k, []string{"X", "Y"}}},
		}
	}
	var out []Req
	for _, m := range []string{"GET", "POST", "OPTIONS", "PUT", "HEAD", "options"} {
		for _, o := range shapes(hOrigin) {
			for _, a := range shapes(hACRM) {
				q := Req{Method: m}
				for _, hv := range o {
					v := hv.V
					if len(v) > 0 && v[0] == "X" {
						v = append([]string{"https://example.com"}, v[1:]...)
					}
					if len(v) > 1 {
						v[1] = "https://foo.example.com"
					}
					q.H = append(q.H, HV{hv.K, v})
				}
				for _, hv := range a {
					v := hv.V
					if len(v) > 0 && v[0] == "X" {
						v = append([]string{"PUT"}, v[1:]...)
					}
					if len(v) > 1 {
						v[1] = "GET"
					}
					q.H = append(q.H, HV{hv.K, v})
				}
				out = append(out, q)
			}
		}
	}
	// several field lines of which some or all are EMPTY: a header that is present with
	// empty lines only is still present (w30-C11)
	for _, m := range []string{"OPTIONS", "GET"} {
		for hi, k := range []string{hOrigin, hACRM} {
			full, other := "https://example.com", hACRM
			otherFull := "PUT"
			if hi == 1 {
				full, other, otherFull = "PUT", hOrigin, "https://example.com"
			}
			for _, lines := range [][]string{{"", ""}, {"", full}, {full, ""}, {"", "", ""}, {"", "", full}} {
				for _, ov := range [][]string{nil, {""}, {otherFull}, {"", ""}} {
					q := Req{Method: m, H: []HV{{k, append([]string{}, lines...)}}}
					if ov != nil {
						q.H = append(q.H, HV{other, append([]string{}, ov...)})
					}
					out = append(out, q)
				}
			}
		}
	}
	// field-line COUNTS on type-width boundaries (a legal request: 256 short lines are a few KB)
	many := func(v string, n int) []string {
		l := make([]string, n)
		for i := range l {
			l[i] = v
		}
		return l
	}
	for _, n := range []int{255, 256, 257, 512} {
		out = append(out,
			Req{Method: "OPTIONS", H: []HV{{hOrigin, many("https://example.com", n)}, {hACRM, []string{"PUT"}}}},
			Req{Method: "OPTIONS", H: []HV{{hOrigin, []string{"https://example.com"}}, {hACRM, many("PUT", n)}}},
		)
	}
	out = append(out,
		Req{Method: "OPTIONS", H: []HV{{hOrigin, many("https://example.com", 256)}, {hACRM, many("PUT", 256)}}},
		Req{Method: "GET", H: []HV{{hOrigin, many("https://example.com", 256)}}},
	)
	return out
}

var c11Grid = gridRequests()

func sortedKeys(h http.Header) []string {
	ks := make([]string, 0, len(h))
	for k := range h {
		ks = append(ks, k)
	}
	sort.Strings(ks)
	return ks
}

func hvEqual(a, b []string) bool {
	if len(a) != len(b) {
		return false
	}
	for i := range a {
		if a[i] != b[i] {
			return false
		}
	}
	return true
}

func hasPrefixVals(vals, prefix []string) bool {
	return len(vals) >= len(prefix) && hvEqual(vals[:len(prefix)], prefix)
}

// delegate lets ONE long-lived wrapped handler (obtained from Wrap once, at
// creation time, and kept across every later Reconfigure) serve all cases.
type delegate struct{ h http.Handler }

func (d *delegate) ServeHTTP(w http.ResponseWriter, r *http.Request) { d.h.ServeHTTP(w, r) }

func (c11) Exec(plan any, c *Ctx) *Violation {
	observeUnknownAPI = false
	p := plan.(*C11Plan)
	c11Pending = nil
	c11AliasTick = p.Salt % 5
	var m *cors.Middleware
	configured := false
	if p.StartZero || len(p.Cfgs) == 0 {
		m = zeroMW()
	} else {
		var err error
		m, err, _ = newMW(p.Cfgs[0])
		if err != nil || m == nil {
			c.hit("generator_rejected")
			return nil
		}
		configured = true
	}
	sawConf, sawPass, nConf := configured, !configured, 0
	dg := &delegate{}
	longLived := m.Wrap(dg) // wrapped once, in the creation state, used for the whole history
	idx := p.Salt
	batch := func(label string) *Violation {
		reqs := append(append([]Req{}, c11Grid...), p.Extra...)
		for _, q := range reqs {
			idx++
			var preset []HV
			var sc Script
			if len(p.Presets) > 0 {
				preset = p.Presets[idx%len(p.Presets)]
			}
			if len(p.Scripts) > 0 {
				sc = p.Scripts[(idx/3)%len(p.Scripts)]
			}
			var via http.Handler // every third case goes through a freshly wrapped handler instead
			if idx%3 != 0 {
				via = longLived
				c.hit("via_long_lived_wrapped_handler")
			}
			if len(p.Noise) > 0 && idx%2 == 0 {
				// bystander headers: none of them takes part in the preflight predicate
				q = q.withNoise(p.Noise[(idx/2)%len(p.Noise)])
				c.hit("bystander_request_headers")
			}
			prev := c11Pending
			c11Pending = nil
			if v := c11Case(m, via, dg, configured, q, preset, sc, label, c); v != nil {
				return v
			}
			if prev != nil {
				c.hit("head_serialised_after_the_next_request")
				if late := headerFP(prev.h); late != prev.fp {
					return &Violation{Class: "response-changed-after-return", Key: "late", Detail: prev.what + fmt.Sprintf(": the handler wrote nothing, so the head is serialised when the chain has returned; it was %s then and is %s after the next request (%s) was served", prev.fp, late, q)}
				}
			}
		}
		return nil
	}
	if v := batch("create"); v != nil {
		return v
	}
	for si, st := range p.Steps {
		betweenSteps("a step")
		label := fmt.Sprintf("#%d %s", si, st.Kind)
		var err error
		pan := catch(func() {
			switch st.Kind {
			case "reconf":
				cc := p.Cfgs[st.Cfg%len(p.Cfgs)].Config()
				err = reconfN(m, &cc)
				if err == nil {
					if !configured && sawConf {
						c.hit("reconfigure_to_passthrough_and_back")
					}
					configured = true
					nConf++
				}
			case "reconf_nil":
				err = reconfN(m, nil)
				configured = false
			case "setdebug":
				setDebugN(m, st.Debug)
			}
		})
		if pan != "" {
			return &Violation{Class: "panic", Key: st.Kind, Detail: label + ": " + pan}
		}
		if err != nil {
			c.hit("generator_rejected")
			return nil
		}
		sawConf = sawConf || configured
		sawPass = sawPass || !configured
		c.logf("%s configured=%v", label, configured)
		if v := batch(label); v != nil {
			return v
		}
	}
	c.Nontrivial = (sawConf && sawPass) || nConf >= 2
	// ---- the wire world (wire.go): the middleware as the history left it, behind a real
	// net/http server; what the recording writer says the client receives must be what a
	// real client receives
	if v := c11Wire(m, p, c); v != nil {
		return v
	}
	return nil
}

type plainScript struct{ sc Script }

func (h plainScript) ServeHTTP(w http.ResponseWriter, r *http.Request) {
	applyOps(w.Header(), h.sc.Ops)
	if h.sc.Status != 0 {
		w.WriteHeader(h.sc.Status)
	}
	for _, chunk := range h.sc.Body {
		w.Write([]byte(chunk))
	}
	applyOps(w.Header(), h.sc.LateOps)
}

func c11Wire(m *cors.Middleware, p *C11Plan, c *Ctx) *Violation {
	if len(p.Scripts) == 0 || len(p.Presets) == 0 {
		return nil
	}
	cands := append(append([]Req{}, p.Extra...), c11Grid[p.Salt%len(c11Grid)], c11Grid[(p.Salt/7)%len(c11Grid)])
	n := 0
	for i, q := range cands {
		if n >= 6 {
			break
		}
		q.Shape = 0 // what else an *http.Request carries is the server's to decide here
		skip := false
		// field values as they can arrive: optional whitespace around a value is not part of it
		trimmed := make([]HV, len(q.H))
		for j, hv := range q.H {
			trimmed[j] = HV{hv.K, make([]string, len(hv.V))}
			for k, v := range hv.V {
				trimmed[j].V[k] = strings.Trim(v, " \t")
			}
		}
		q.H = trimmed
		for _, hv := range q.H {
			switch hv.K {
			case "Connection", "Upgrade", "Expect", "Content-Length", "Te", "Transfer-Encoding", "Host":
				skip = true
			}
		}
		if skip {
			continue
		}
		sc, preset := p.Scripts[(p.Salt+i)%len(p.Scripts)], p.Presets[(p.Salt/3+i)%len(p.Presets)]
		chain := http.HandlerFunc(func(w http.ResponseWriter, r *http.Request) {
			for _, hv := range preset { // an outer layer that ran before the CORS middleware
				w.Header()[hv.K] = append([]string{}, hv.V...)
			}
			m.Wrap(plainScript{sc}).ServeHTTP(w, r)
		})
		direct := newRec(nil)
		direct.keepSnap = true
		if pan := catch(func() { chain.ServeHTTP(direct, q.build()) }); pan != "" {
			return &Violation{Class: "panic", Key: "serve", Detail: fmt.Sprintf("wire world, direct call: %s: %s", q, pan)}
		}
		wr, ok := getWire().do(chain, q)
		if !ok {
			c.hit("wire_world_request_cannot_travel")
			continue
		}
		n++
		c.hit("wire_world_compared")
		if d := compareWire(direct, wr, q.Method); d != "" {
			return &Violation{Class: "client-receives-something-else", Key: "wire", Detail: fmt.Sprintf("req=%s preset=%v script=%+v: behind a real net/http server the client does not receive what the recording writer recorded: %s", q, preset, sc, d)}
		}
	}
	return nil
}

var c11AliasTick int

func c11Case(m *cors.Middleware, via http.Handler, dg *delegate, configured bool, q Req, preset []HV, sc Script, label string, c *Ctx) *Violation {
	rec := newRec(preset)
	req := q.build()
	// every fifth case: an OUTER layer of this very library has run before (two policy layers
	// stacked): it has set Access-Control-Allow-Origin to a slice that ALIASES the request's own
	// Origin field lines, as the library does for an allowed origin. Whoever recycles that
	// slice writes into the request.
	c11AliasTick++
	if o := req.Header["Origin"]; c11AliasTick%5 == 0 && len(o) > 0 {
		rec.h["Access-Control-Allow-Origin"] = o[:1]
		rec.h["Vary"] = append(rec.h["Vary"], "Origin")
		c.hit("preset_acao_aliases_the_request_origin")
	}
	presetMap := cloneHeader(rec.h)
	h := &scriptHandler{sc: sc, wantReq: req, wantW: rec, rec: rec, reqSent: req.Method + " " + headerFP(req.Header)}
	pre := isPreflightC11(req)
	// reach counters
	if _, ok := presetMap["Vary"]; ok {
		c.hit("preset_vary_present")
	}
	if _, ok := presetMap["Access-Control-Allow-Origin"]; ok {
		c.hit("preset_cors_header_present")
	}
	for _, hv := range q.H {
		if len(hv.V) == 0 {
			c.hit("zero_length_header_list")
		}
		if hv.K == hOrigin && len(hv.V) > 1 {
			c.hit("multi_valued_origin")
		}
	}
	for _, o := range sc.LateOps {
		_ = o
		c.hit("handler_writes_after_writeheader")
		break
	}
	for _, o := range sc.Ops {
		if o.Op == "del" && isACName(o.K) {
			c.hit("handler_deletes_cors_header")
		}
		if o.K == "Vary" && o.Op != "del" {
			c.hit("handler_sets_vary")
		}
	}
	pan := catch(func() {
		if via != nil {
			dg.h = h
			via.ServeHTTP(rec, req)
		} else {
			m.Wrap(h).ServeHTTP(rec, req)
		}
	})
	c.Steps++
	ctxs := func() string {
		return fmt.Sprintf("%s configured=%v req=%s preset=%v script=%+v", label, configured, q, preset, sc)
	}
	if pan != "" {
		return &Violation{Class: "panic", Key: "serve", Detail: ctxs() + ": " + pan}
	}
	if configured && pre {
		c.hit("preflight_on_configured")
		if h.count != 0 {
			return &Violation{Class: "handler-invoked-for-preflight", Key: q.Method, Detail: ctxs() + fmt.Sprintf(": handler invoked %d time(s)", h.count)}
		}
		if len(rec.body) != 0 {
			return &Violation{Class: "preflight-body", Key: q.Method, Detail: ctxs() + fmt.Sprintf(": body %q", rec.body)}
		}
		return nil
	}
	if pre {
		c.hit("preflight_on_passthrough")
	}
	if q.Method == "OPTIONS" && !pre && len(req.Header["Origin"]) > 0 {
		c.hit("non_preflight_options_with_origin")
	}
	if len(preset) > 0 && len(req.Header["Origin"]) > 0 && !pre {
		c.hit("actual_request_with_preset")
	}
	if h.count != 1 {
		return &Violation{Class: "handler-invocations", Key: fmt.Sprint(h.count), Detail: ctxs() + fmt.Sprintf(": handler invoked %d time(s), want exactly 1 (not a preflight: method=%q Origin lines=%d ACRM lines=%d)", h.count, q.Method, len(req.Header["Origin"]), len(req.Header["Access-Control-Request-Method"]))}
	}
	c.hit("handler_invoked_once")
	if !h.sameReq || !h.sameW {
		return &Violation{Class: "argument-identity", Key: "identity", Detail: ctxs() + fmt.Sprintf(": same request=%v same writer=%v", h.sameReq, h.sameW)}
	}
	if h.reqSeen != h.reqSent {
		return &Violation{Class: "request-mutated", Key: "request", Detail: ctxs() + fmt.Sprintf(": the client sent %s but the wrapped handler received %s (same *http.Request, contents rewritten)", h.reqSent, h.reqSeen)}
	}
	// nothing but Header() calls before the handler
	for _, cl := range rec.calls[:h.callsIn] {
		if cl.Kind != "header" {
			return &Violation{Class: "write-before-handler", Key: cl.Kind, Detail: ctxs() + fmt.Sprintf(": middleware called %s(%d) before the handler", cl.Kind, cl.Status)}
		}
	}
	// nothing at all after the handler returned
	if len(rec.calls) != h.callsOut {
		return &Violation{Class: "touch-after-handler", Key: rec.calls[h.callsOut].Kind, Detail: ctxs() + fmt.Sprintf(": %d writer call(s) after the handler returned, first %s", len(rec.calls)-h.callsOut, rec.calls[h.callsOut].Kind)}
	}
	if fp, fpExit := headerFP(rec.h), headerFP(h.exit); fp != fpExit {
		return &Violation{Class: "touch-after-handler", Key: "header-map", Detail: ctxs() + fmt.Sprintf(": header map at handler return %s, finally %s", fpExit, fp)}
	}
	// the handler's own header operations must arrive as written: replay the
	// script on a deep copy of what the handler saw on entry (no shared backing
	// arrays) and compare with the real map — slices the middleware installed
	// must not overlap each other or anything else
	expect := cloneHeader(h.entry)
	applyOps(expect, sc.Ops)
	applyOps(expect, sc.LateOps)
	if got, want := headerFP(rec.h), headerFP(expect); got != want {
		return &Violation{Class: "handler-headers-corrupted", Key: "aliasing", Detail: ctxs() + fmt.Sprintf(": the handler saw %s and applied its script; the client should get %s but gets %s (header slices installed by the middleware share memory)", headerFP(h.entry), want, got)}
	}
	// entry map vs pre-set map
	if !configured {
		if a, b := headerFP(h.entry), headerFP(presetMap); a != b {
			return &Violation{Class: "passthrough-not-identity", Key: "headers", Detail: ctxs() + fmt.Sprintf(": pre-set %s, handler saw %s", b, a)}
		}
	} else {
		for _, k := range sortedKeys(presetMap) {
			want := presetMap[k]
			got, ok := h.entry[k]
			switch k {
			case "Vary":
				if !ok || !hasPrefixVals(got, want) {
					return &Violation{Class: "preset-vary-lost", Key: "Vary", Detail: ctxs() + fmt.Sprintf(": pre-set Vary %q, handler saw %q", want, got)}
				}
			case "Access-Control-Allow-Origin", "Access-Control-Allow-Credentials", "Access-Control-Expose-Headers":
				// may be replaced by the middleware
			default:
				if !ok || !hvEqual(got, want) {
					return &Violation{Class: "preset-header-changed", Key: k, Detail: ctxs() + fmt.Sprintf(": pre-set %s=%q, handler saw %q (present=%v)", k, want, got, ok)}
				}
			}
		}
		for _, k := range sortedKeys(h.entry) {
			got := h.entry[k]
			if _, ok := presetMap[k]; ok {
				continue
			}
			switch k {
			case "Vary", "Access-Control-Allow-Origin", "Access-Control-Allow-Credentials", "Access-Control-Expose-Headers":
			default:
				return &Violation{Class: "unexpected-header-added", Key: k, Detail: ctxs() + fmt.Sprintf(": middleware added %s=%q", k, got)}
			}
		}
	}
	// status and body are the script's
	wantStatus := sc.Status
	if wantStatus == 0 && len(sc.Body) > 0 {
		wantStatus = 200
	}
	if rec.status != wantStatus {
		return &Violation{Class: "status-changed", Key: fmt.Sprint(rec.status), Detail: ctxs() + fmt.Sprintf(": client got status %d, handler wrote %d", rec.status, wantStatus)}
	}
	if got, want := string(rec.body), strings.Join(sc.Body, ""); got != want {
		return &Violation{Class: "body-changed", Key: "body", Detail: ctxs() + fmt.Sprintf(": client got body %q, handler wrote %q", got, want)}
	}
	// a handler that wrote nothing: net/http serialises the head only when the whole chain
	// has returned, possibly after other requests were served. The batch loop
	// looks at this header map again after the NEXT case.
	if sc.Status == 0 && len(sc.Body) == 0 && !pre {
		c11Pending = &pendingHead{rec.h, headerFP(rec.h), ctxs()}
	}
	return nil
}

type pendingHead struct {
	h    http.Header
	fp   string
	what string
}

var c11Pending *pendingHead // set by c11Case, consumed by the batch loop (one engine run at a time per process)

func (c11) Shrink(plan any) []any {
	p := plan.(*C11Plan)
	var out []any
	for i := len(p.Steps) - 1; i >= 0; i-- {
		q := *p
		q.Steps = append(append([]C11Step{}, p.Steps[:i]...), p.Steps[i+1:]...)
		out = append(out, &q)
	}
	if len(p.Extra) > 0 {
		q := *p
		q.Extra = nil
		out = append(out, &q)
		for i := range p.Extra {
			q := *p
			q.Extra = []Req{p.Extra[i]}
			out = append(out, &q)
		}
	}
	if len(p.Presets) > 1 {
		for i := range p.Presets {
			q := *p
			q.Presets = [][]HV{p.Presets[i]}
			out = append(out, &q)
		}
	}
	if len(p.Presets) == 1 && len(p.Presets[0]) > 0 {
		q := *p
		q.Presets = [][]HV{nil}
		out = append(out, &q)
		for i := range p.Presets[0] {
			q := *p
			q.Presets = [][]HV{append(append([]HV{}, p.Presets[0][:i]...), p.Presets[0][i+1:]...)}
			out = append(out, &q)
		}
	}
	if len(p.Scripts) > 1 {
		for i := range p.Scripts {
			q := *p
			q.Scripts = []Script{p.Scripts[i]}
			out = append(out, &q)
		}
	}
	if len(p.Scripts) == 1 {
		sc := p.Scripts[0]
		if len(sc.Ops)+len(sc.LateOps)+len(sc.Body) > 0 {
			q := *p
			q.Scripts = []Script{{Status: sc.Status}}
			out = append(out, &q)
			q2 := *p
			q2.Scripts = []Script{{Status: sc.Status, Body: sc.Body}}
			out = append(out, &q2)
		}
	}
	if !p.StartZero {
		q := *p
		q.StartZero = true
		out = append(out, &q)
	}
	for i, cfg := range p.Cfgs {
		for _, sc := range shrinkCfg(cfg) {
			q := *p
			q.Cfgs = append([]Cfg{}, p.Cfgs...)
			q.Cfgs[i] = sc
			out = append(out, &q)
		}
	}
	return out
}
