package main

// c09.go — histsim: debug mode over arbitrary call histories, checked after
// every step against an independent two-variable state machine transcribed
// from the doc comments of Middleware, NewMiddleware, Reconfigure, SetDebug.

import (
	"encoding/json"
	"fmt"
	"strings"
	"time"

	"github.com/jub0bs/cors"
)

const (
	opDebugOn = iota
	opDebugOff
	opReconfNil
	opReconfA
	opReconfB
	opReconfInvalid
	opRestore  // m.Reconfigure(m.Config())
	opRequests // a burst of requests (must not change the state)
	nC09Ops
)

var c09OpNames = []string{"SetDebug(true)", "SetDebug(false)", "Reconfigure(nil)", "Reconfigure(A)", "Reconfigure(B)", "Reconfigure(invalid)", "Reconfigure(Config())", "requests"}

type C09Plan struct {
	A, B      Cfg
	StartZero bool      `json:"start_zero"`
	Ops       []int     `json:"ops"`
	Planted   []Planted `json:"planted"`         // what makes Reconfigure(invalid) invalid (applied to B)
	Probe     int       `json:"probe"`           // which failing-preflight probe observes debug mode (method / PNA / headers)
	Noise     []HV      `json:"noise,omitempty"` // bystander request headers / request shape on every other debug probe
}

type c09 struct{}

func init() { register(c09{}) }

func (c09) ID() string    { return "C09" }
func (c09) Level() string { return "exploration" }
func (c09) Rule() string {
	return "one case = (configurations A,B with an observable debug probe - in 20% of the cases B is instead a configuration under which no preflight from an allowed origin can fail, so that debug mode is invisible while B is installed and must be found as the state machine says at the next visible configuration; start state NewMiddleware(A) or zero value; operation sequence of length 1..8 over SetDebug(true/false), Reconfigure(nil/A/B/invalid)); plus occasional Reconfigure(Config()) and request bursts; state observed after every step through a plan-chosen kind of failing preflight (method / private-network / header list); the middleware AS THE HISTORY LEFT IT is compared with a fresh one in the opposite debug mode (second clause of the property); distinct = distinct plan hash; non-trivial = the sequence contains at least one SetDebug and at least one Reconfigure"
}
func (c09) Budget(tier string) (int, time.Duration) {
	if tier == "thorough" {
		return 6_000_000, 10 * time.Minute
	}
	return 100_000, 45 * time.Second
}
func (c09) Assumptions() []string {
	return []string{
		"debug mode is observed through a failing preflight from an allowed origin (ok status + Access-Control-Allow-Origin = on; 403 and no Access-Control-* header = off)",
		"the state machine is transcribed from the documentation: creation => off; SetDebug(b) sets b iff configured; Reconfigure(nil) => passthrough, off; successful Reconfigure keeps the mode; failed Reconfigure changes nothing",
		"second clause (debug changes only failing-preflight diagnostics) is read as: non-preflight responses identical in both modes; preflight responses may differ in status and Access-Control-* headers only; preflights that succeed with debug off keep their status and differ at most in the Access-Control-Allow-Headers value (the documented 'full allowed-header list')",
		"requests are built the way net/http delivers them (canonical keys)",
	}
}
func (c09) Parties() map[string]string {
	return map[string]string{"cors.Middleware (NewMiddleware, Reconfigure, SetDebug, Config, Wrap)": "real", "operator issuing the call history": "stub", "debug state machine": "model (independent, 2 variables)", "wrapped handler / ResponseWriter": "stub (constant handler, recording writer)"}
}
func (c09) FaultKinds() []string {
	return []string{"F1_rejected_reconfigure", "op_setdebug_on_passthrough", "op_reconfigure_nil"}
}
func (c09) Probes() []string {
	return []string{"debug_on_observed", "debug_off_observed", "passthrough_observed", "setdebug_true_then_configure", "debug_survives_reconfigure", "twin_debug_pairs_compared", "history_twin_compared", "configuration_showing_nothing_of_debug_mode", "debug_probe_with_bystander_headers"}
}

func hasObservableDebug(c Cfg) bool { _, ok := debugProbe(c); return ok }

func genObservableCfg(r *R) Cfg {
	for {
		c := genCfg(r)
		if hasObservableDebug(c) {
			return c
		}
	}
}

// genIndifferentCfg returns a configuration under which no preflight from an
// allowed origin can fail (every method, every request header, private-network
// access granted): debug mode has nothing to show there, yet by the documented
// state machine it is set, kept and cleared exactly as under any other
// configuration - which the next observable configuration of the history shows.
func genIndifferentCfg(r *R) Cfg {
	for tries := 0; tries < 50; tries++ {
		c := genCfg(r)
		c.Credentialed = false
		var os []string
		for _, o := range c.Origins {
			if o != "*" {
				os = append(os, o)
			}
		}
		if len(os) == 0 {
			os = []string{"https://example.com"}
		}
		c.Origins = os
		c.Methods = []string{"*"}
		c.RequestHeaders = []string{"*"}
		if r.P(0.3) {
			c.RequestHeaders = append(c.RequestHeaders, "Authorization")
		}
		if !c.PNA && !c.PNANoCors {
			c.PNA, c.PNANoCors = r.P(0.7), false
			c.PNANoCors = !c.PNA
		}
		if m, err, pan := newMW(c); m != nil && err == nil && pan == nil && !hasObservableDebug(c) {
			return c
		}
	}
	return genObservableCfg(r)
}

func (c09) Gen(r *R, tier string) any {
	allowHugeOriginLists = false
	observeUnknownAPI = false
	p := &C09Plan{A: genObservableCfg(r), B: genObservableCfg(r), StartZero: r.P(0.5), Probe: r.Intn(12)}
	if r.P(0.2) {
		// B (never both) shows nothing of debug mode: the state must survive the stay there
		p.B = genIndifferentCfg(r)
	}
	n := r.Range(1, 8)
	if tier == "thorough" && r.P(0.3) {
		n = r.Range(8, 14)
	}
	for i := 0; i < n; i++ {
		if r.P(0.85) {
			p.Ops = append(p.Ops, r.Intn(opRestore)) // the six operations of the property statement
		} else {
			p.Ops = append(p.Ops, r.Range(opRestore, nC09Ops-1))
		}
	}
	p.Planted = genPlanted(r, r.Range(1, 3))
	if r.P(0.6) {
		p.Noise = genNoise(r)
	}
	return p
}

func (c09) Decode(b []byte) (any, error) {
	var p C09Plan
	err := json.Unmarshal(b, &p)
	return &p, err
}

func (p *C09Plan) key() string {
	s := []string{"New(A)"}
	if p.StartZero {
		s[0] = "zero"
	}
	for _, o := range p.Ops {
		s = append(s, c09OpNames[o%nC09Ops])
	}
	return strings.Join(s, ";")
}

func isOK(status int) bool { return status >= 200 && status <= 299 }

func (c09) Exec(plan any, c *Ctx) *Violation {
	observeUnknownAPI = false
	p := plan.(*C09Plan)
	// model state
	configured, debug := !p.StartZero, false
	cur := p.A
	var m *cors.Middleware
	if p.StartZero {
		m = zeroMW()
	} else {
		var err error
		var pan any
		m, err, pan = newMW(p.A)
		if err != nil || pan != nil {
			c.hit("generator_rejected")
			return nil
		}
	}
	srv := newServer(m.Wrap)
	passProbe := preflight("https://probe.test", "PUT", nil, false)
	sawSet, sawReconf := false, false
	nObs := 0
	observe := func(step string) *Violation {
		// passthrough detection: a preflight reaches the handler only on a passthrough middleware
		r0 := srv.do(passProbe)
		if r0.Panic != "" {
			return &Violation{Class: "panic", Key: p.key(), Detail: step + ": " + r0.Panic}
		}
		gotPass := r0.Handler == 1
		cfgNil := m.Config() == nil
		c.logf("%s -> passthrough=%v config_nil=%v", step, gotPass, cfgNil)
		if gotPass != !configured || cfgNil != !configured {
			return &Violation{Class: "passthrough-state", Key: p.key(), Detail: fmt.Sprintf("after %s: model configured=%v but handler-reached=%v Config()==nil:%v", step, configured, gotPass, cfgNil)}
		}
		if !configured {
			c.hit("passthrough_observed")
			return nil // debug of a passthrough middleware is observed at the next configuration
		}
		q, observable := debugProbeK(cur, p.Probe)
		if !observable {
			c.hit("configuration_showing_nothing_of_debug_mode")
			return nil // as on a passthrough middleware: observed at the next configuration that shows it
		}
		nObs++
		if len(p.Noise) > 0 && nObs%2 == 0 {
			// what the failing preflight shows is the middleware's debug mode, whatever else the request carries
			q = q.withNoise(p.Noise)
			c.hit("debug_probe_with_bystander_headers")
		}
		r1 := srv.do(q)
		var got bool
		switch {
		case r1.Panic != "":
			return &Violation{Class: "panic", Key: p.key(), Detail: step + ": " + r1.Panic}
		case r1.WH > 0:
			// the diagnostic "ok status" must REACH the client: with a second WriteHeader call,
			// which status is left depends on the writer (net/http keeps the first and logs
			// "superfluous response.WriteHeader call"; a wrapper may keep the last)
			return &Violation{Class: "superfluous-writeheader", Key: p.key(), Detail: fmt.Sprintf("after %s: the failing-preflight probe %s made the middleware call WriteHeader %d times: %s", step, q, r1.WH+1, r1)}
		case isOK(r1.Status) && hasACHeader(r1.Headers):
			got = true
		case r1.Status == 403 && !hasACHeader(r1.Headers):
			got = false
		default:
			return &Violation{Class: "probe-unreadable", Key: p.key(), Detail: fmt.Sprintf("after %s: failing-preflight probe %s answered %s", step, q, r1)}
		}
		c.logf("%s -> debug observed=%v model=%v", step, got, debug)
		if got {
			c.hit("debug_on_observed")
		} else {
			c.hit("debug_off_observed")
		}
		if got != debug {
			return &Violation{Class: "debug-state", Key: p.key(), Detail: fmt.Sprintf("history %s: after %s debug mode is %v, documented state machine says %v (probe %s -> %s)", p.key(), step, got, debug, q, r1)}
		}
		return nil
	}
	if v := observe("create"); v != nil {
		return v
	}
	bad := plantAll(p.B, p.Planted)
	pendingTrueOnPass := false
	var restored *Cfg
	for i, op := range p.Ops {
		betweenSteps("a step")
		op %= nC09Ops
		step := fmt.Sprintf("#%d %s", i, c09OpNames[op])
		var err error
		restored = nil
		pan := catch(func() {
			switch op {
			case opDebugOn, opDebugOff:
				setDebugN(m, op == opDebugOn)
			case opReconfNil:
				err = reconfN(m, nil)
			case opReconfA:
				cc := p.A.Config()
				err = reconfN(m, &cc)
			case opReconfB:
				cc := p.B.Config()
				err = reconfN(m, &cc)
			case opReconfInvalid:
				cc := bad.Config()
				err = reconfN(m, &cc)
			case opRestore:
				snap := m.Config()
				err = reconfN(m, snap)
				if err == nil && snap != nil {
					restored = fromConfig(snap) // what is installed now is what Config() returned, whatever that is (C06 judges it)
				}
			case opRequests:
				for _, q := range []Req{{Method: "GET"}, passProbe, preflight("https://probe.test", "GET", []string{"x-foo"}, true), {Method: "GET", H: []HV{{hOrigin, []string{"https://probe.test"}}}}} {
					srv.do(q)
				}
			}
		})
		if pan != "" {
			return &Violation{Class: "panic", Key: p.key(), Detail: step + ": " + pan}
		}
		// the documented state machine
		switch op {
		case opDebugOn, opDebugOff:
			sawSet = true
			if configured {
				debug = op == opDebugOn
			} else {
				c.hit("op_setdebug_on_passthrough")
				pendingTrueOnPass = pendingTrueOnPass || op == opDebugOn
			}
		case opReconfNil:
			sawReconf = true
			c.hit("op_reconfigure_nil")
			configured, debug = false, false
			if err != nil {
				return &Violation{Class: "reconfigure-result", Key: p.key(), Detail: step + " returned " + err.Error()}
			}
		case opReconfA, opReconfB:
			sawReconf = true
			if err != nil {
				c.hit("generator_rejected")
				return nil
			}
			if !configured && pendingTrueOnPass {
				c.hit("setdebug_true_then_configure")
			}
			pendingTrueOnPass = false
			if configured && debug {
				c.hit("debug_survives_reconfigure")
			}
			configured = true
			cur = p.A
			if op == opReconfB {
				cur = p.B
			}
		case opRestore:
			// on a passthrough middleware Config() is nil, i.e. Reconfigure(nil). On a
			// configured one it is a Reconfigure with whatever Config() returned: if
			// that is accepted, debug mode is kept and the installed configuration is
			// that value; if it is rejected (a C06 defect), nothing may change.
			c.hit("op_restore")
			switch {
			case !configured:
				debug = false
			case err == nil && restored != nil:
				if !hasObservableDebug(*restored) {
					return nil // cannot observe debug under what Config() returned; run abandoned
				}
				cur = *restored
			}
		case opRequests:
			c.hit("op_requests")
		case opReconfInvalid:
			sawReconf = true
			c.hit("F1_rejected_reconfigure")
			if err == nil {
				return &Violation{Class: "reconfigure-result", Key: p.key(), Detail: fmt.Sprintf("%s accepted an invalid configuration %s", step, bad)}
			}
		}
		if v := observe(step); v != nil {
			return v
		}
		if configured && (op == opReconfA || op == opReconfB || op == opRestore || op == opDebugOn) {
			// the state as this history reached it, against a fresh middleware in the opposite mode (every 4th probe)
			if v := historyTwin(srv, cur, debug, 4, "after "+p.key()[:min(len(p.key()), 200)], c, p.key()); v != nil {
				return v
			}
		}
	}
	c.Nontrivial = sawSet && sawReconf
	if configured {
		if v := historyTwin(srv, cur, debug, 1, "at the end of "+p.key(), c, p.key()); v != nil {
			return v
		}
	}
	// second clause: debug changes only the diagnostics of failing preflights
	for _, cfg := range []Cfg{p.A, p.B} {
		if v := debugTwins(cfg, c, p.key()); v != nil {
			return v
		}
	}
	return nil
}

// stripAC removes the Access-Control-* entries (only=="") or the single
// entry named only from a header fingerprint.
func stripAC(fp string, only string) string {
	return fpFilter(fp, func(k string) bool {
		if only == "" {
			return !isACName(k)
		}
		return k != only
	})
}

func isPreflightReq(q Req) bool {
	o, ok1 := q.get(hOrigin)
	a, ok2 := q.get(hACRM)
	return q.Method == "OPTIONS" && ok1 && len(o) > 0 && ok2 && len(a) > 0
}

func debugTwins(cfg Cfg, c *Ctx, key string) *Violation {
	off, err1, _ := newMW(cfg)
	on, err2, _ := newMW(cfg)
	if err1 != nil || err2 != nil {
		return nil
	}
	on.SetDebug(true)
	return compareDebugPair(newServer(off.Wrap), newServer(on.Wrap), cfg, probeSuite(cfg), 1, "fresh twins", c, key)
}

// historyTwin compares the middleware as the HISTORY left it (debug mode d by
// the model, already confirmed by the probe) with a fresh middleware of the
// same configuration in the opposite mode: however debug mode was reached, it
// may change only the diagnostics of failing preflights.
func historyTwin(srv *mwServer, cfg Cfg, d bool, stride int, where string, c *Ctx, key string) *Violation {
	fresh, err, _ := newMW(cfg)
	if err != nil {
		return nil
	}
	fresh.SetDebug(!d)
	fs := newServer(fresh.Wrap)
	c.hit("history_twin_compared")
	if d {
		return compareDebugPair(fs, srv, cfg, probeSuite(cfg), stride, where, c, key)
	}
	return compareDebugPair(srv, fs, cfg, probeSuite(cfg), stride, where, c, key)
}

func compareDebugPair(sOff, sOn *mwServer, cfg Cfg, suite []Req, stride int, where string, c *Ctx, key string) *Violation {
	for i := 0; i < len(suite); i += stride {
		q := suite[i]
		a, b := sOff.do(q), sOn.do(q)
		c.hit("twin_debug_pairs_compared")
		if a.Panic != "" || b.Panic != "" {
			return &Violation{Class: "panic", Key: key, Detail: fmt.Sprintf("%s: %s / %s", q, a.Panic, b.Panic)}
		}
		switch {
		case a == b:
		case !isPreflightReq(q):
			return &Violation{Class: "debug-changes-non-preflight", Key: q.String(), Detail: fmt.Sprintf("%s: cfg=%s req=%s debug off: %s; debug on: %s", where, cfg, q, a, b)}
		case isOK(a.Status): // succeeds with debug off
			// Access-Control-Allow-Headers may differ in VALUE (debug mode lists all
			// allowed names instead of echoing the requested ones), but it must still
			// be present iff it was, and must still list every name it listed before.
			offList, offHasACAH, _ := extractList(a.Headers, hACAH)
			onList, onHasACAH, _ := extractList(b.Headers, hACAH)
			covered := true
			for _, n := range offList {
				if !containsFold(onList, n) {
					covered = false
				}
			}
			if a.Status != b.Status || a.Body != b.Body || a.Handler != b.Handler || stripAC(a.Headers, hACAH) != stripAC(b.Headers, hACAH) || offHasACAH != onHasACAH || !covered {
				return &Violation{Class: "debug-changes-successful-preflight", Key: q.String(), Detail: fmt.Sprintf("%s: cfg=%s req=%s debug off: %s; debug on: %s", where, cfg, q, a, b)}
			}
		default:
			if a.Body != b.Body || a.Handler != b.Handler || stripAC(a.Headers, "") != stripAC(b.Headers, "") {
				return &Violation{Class: "debug-changes-beyond-diagnostics", Key: q.String(), Detail: fmt.Sprintf("%s: cfg=%s req=%s debug off: %s; debug on: %s", where, cfg, q, a, b)}
			}
		}
	}
	return nil
}

func (c09) Shrink(plan any) []any {
	p := plan.(*C09Plan)
	var out []any
	for i := range p.Ops {
		q := *p
		q.Ops = append(append([]int{}, p.Ops[:i]...), p.Ops[i+1:]...)
		out = append(out, &q)
	}
	if len(p.Noise) > 0 {
		q := *p
		q.Noise = nil
		out = append(out, &q)
		for i := range p.Noise {
			q := *p
			q.Noise = append(append([]HV{}, p.Noise[:i]...), p.Noise[i+1:]...)
			out = append(out, &q)
		}
	}
	for i, o := range p.Ops { // prefer simpler operations: B -> A
		if o%nC09Ops == opReconfB {
			q := *p
			q.Ops = append([]int{}, p.Ops...)
			q.Ops[i] = opReconfA
			out = append(out, &q)
		}
	}
	for _, sc := range shrinkCfg(p.A) {
		if hasObservableDebug(sc) {
			q := *p
			q.A = sc
			out = append(out, &q)
		}
	}
	for _, sc := range shrinkCfg(p.B) {
		if hasObservableDebug(sc) {
			q := *p
			q.B = sc
			out = append(out, &q)
		}
	}
	if len(p.Planted) > 1 {
		q := *p
		q.Planted = p.Planted[:1]
		out = append(out, &q)
	}
	if p.Probe != 0 {
		q := *p
		q.Probe = 0
		out = append(out, &q)
	}
	return out
}
