package main

// probes.go: the shared probe suite derived from a configuration (DESIGN §3):
// every dispatch path of the middleware, from matching origins and from the
// near-misses of every pattern. Pure data; deep-copied by Req.build for every
// use, so a mutating handler can never poison the harness's own inputs.

import (
	"fmt"
	"sort"
	"strings"
)

func lowerSortedUnique(names []string) []string {
	m := map[string]bool{}
	for _, n := range names {
		m[strings.ToLower(n)] = true
	}
	out := make([]string, 0, len(m))
	for n := range m {
		out = append(out, n)
	}
	sort.Strings(out)
	return out
}

func preflight(origin, method string, acrh []string, pna bool) Req {
	q := Req{Method: "OPTIONS", H: []HV{{hOrigin, []string{origin}}, {hACRM, []string{method}}}}
	if acrh != nil {
		q.H = append(q.H, HV{hACRH, acrh})
	}
	if pna {
		q.H = append(q.H, HV{hACRPN, []string{"true"}})
	}
	return q
}

// probeSuite returns the request suite for configuration c. When several
// configurations are in play (C07, C08, C09) the suites are concatenated.
func probeSuite(c Cfg) []Req {
	match, miss := originsFor(c)
	var qs []Req
	qs = append(qs,
		Req{Method: "GET"},
		Req{Method: "OPTIONS"},
		Req{Method: "OPTIONS", H: []HV{{hACRM, []string{"PUT"}}}},
		Req{Method: "POST", H: []HV{{"Content-Type", []string{"application/json"}}}},
	)
	// methods: safelisted, listed, normalisable, unlisted
	methods := []string{"GET", "PUT", "put", "PATCH", "patch", "DELETE", "UNLISTED", "OPTIONS"}
	for _, m := range c.Methods {
		if m != "*" {
			methods = append(methods, m)
		}
	}
	methods = dedup(methods)
	// header lists
	var allowed []string
	star := false
	for _, h := range c.RequestHeaders {
		if h == "*" {
			star = true
		} else {
			allowed = append(allowed, h)
		}
	}
	allowedL := lowerSortedUnique(allowed)
	hdrLists := [][]string{nil, {"x-not-allowed"}, {"authorization"}, {"content-type"}, {"authorization,x-foo"}, {""},
		{"x-foo  ,\t\tx-bar"},                  // more OWS than is tolerated
		{strings.Repeat(",", 20) + "x-foo"},    // more empty elements than are tolerated
		{strings.Repeat("x", 5000) + ",x-foo"}} // an element far beyond any allowed name
	if len(allowedL) > 0 {
		hdrLists = append(hdrLists,
			[]string{strings.Join(allowedL, ",")},
			[]string{strings.Join(allowedL, ", ")},
			[]string{allowedL[0]},
			[]string{strings.Join(append(append([]string{}, allowedL...), "x-not-allowed"), ",")},
			[]string{allowedL[0], "x-not-allowed"},                  // good first field line, bad later one
			[]string{strings.Join(allowedL, ","), "zz-not-allowed"}, // the complete allowed list, then a bad line
			[]string{"", allowedL[0]},                               // empty first field line
		)
		if len(allowedL) > 1 {
			hdrLists = append(hdrLists,
				[]string{allowedL[0], strings.Join(allowedL[1:], ",")},     // split over field lines
				[]string{allowedL[1] + "," + allowedL[0]},                  // unsorted
				[]string{allowedL[0] + ",," + allowedL[1]},                 // empty element
				[]string{strings.ToUpper(allowedL[0]) + "," + allowedL[1]}, // upper case
			)
		}
	}
	_ = star
	origins := append(append([]string{}, match...), miss...)
	// literals of the tree under test (dict.go), three or so per configuration, chosen by a
	// hash of the configuration so that the suite stays a function of it
	var dictOrigins []string
	if len(dict.any.all) > 0 {
		k := int(fnv32(c.String()) & 0x7fffffff)
		methods = dedup(append(methods, dict.any.at(k), dict.any.at(k/7)))
		hdrLists = append(hdrLists, []string{strings.ToLower(dict.any.at(k / 3))}, []string{dict.any.at(k / 11)})
		if len(allowedL) > 0 {
			hdrLists = append(hdrLists, []string{allowedL[0] + "," + strings.ToLower(dict.any.at(k/13))})
		}
		dictOrigins = append(dictOrigins, dict.any.at(k/17))
		if len(dict.hosts.all) > 0 {
			dictOrigins = append(dictOrigins, "https://"+dict.hosts.at(k), "https://sub."+dict.hosts.at(k/23))
			if len(dict.ports.all) > 0 {
				dictOrigins = append(dictOrigins, fmt.Sprintf("http://%s:%d", dict.hosts.at(k/5), dict.ports.at(k/3)))
			}
			if len(dict.schemes.novel) > 0 {
				dictOrigins = append(dictOrigins, dict.schemes.at(2*(k/29))+"://"+dict.hosts.at(k/31))
			}
		}
		if len(dict.ports.all) > 0 && len(match) > 0 {
			// a matching origin moved to a mined port
			pt := dict.ports.at(k / 19)
			if i := strings.LastIndex(match[0], ":"); i > 5 && !strings.HasSuffix(match[0], "]") {
				dictOrigins = append(dictOrigins, fmt.Sprintf("%s:%d", match[0][:i], pt))
			} else {
				dictOrigins = append(dictOrigins, fmt.Sprintf("%s:%d", match[0], pt))
			}
		}
		if len(dict.origins.all) > 0 {
			dictOrigins = append(dictOrigins, dict.origins.at(k))
		}
	}
	origins = append(origins, dictOrigins...)
	origins = append(origins, "https://evil.test", "null", "https://", "HTTPS://EXAMPLE.COM", "",
		"https://[::1", "https://a..b.test", "https://"+strings.Repeat("a", 400)+".test", "https://example.com:0", "https://example.com:65536", "https://example.com:080", "1https://example.com")
	for oi, o := range origins {
		qs = append(qs,
			Req{Method: "GET", H: []HV{{hOrigin, []string{o}}}},
			Req{Method: "OPTIONS", H: []HV{{hOrigin, []string{o}}}},
			Req{Method: "PUT", H: []HV{{hOrigin, []string{o}}, {hACRM, []string{"PUT"}}}},
		)
		full := oi == 0 || (oi == len(match) && len(miss) > 0) // first matching and first non-matching origin: full product
		if full {
			for _, m := range methods {
				for _, hl := range hdrLists {
					qs = append(qs, preflight(o, m, hl, false))
				}
				qs = append(qs, preflight(o, m, nil, true))
			}
			qs = append(qs, preflight(o, "PUT", hdrLists[len(hdrLists)-1], true))
			q := preflight(o, "PUT", nil, false)
			q.H = append(q.H, HV{hACRPN, []string{"false"}})
			qs = append(qs, q)
		} else {
			qs = append(qs, preflight(o, "GET", nil, false), preflight(o, "PUT", nil, false), preflight(o, "UNLISTED", nil, true))
			if len(allowedL) > 0 {
				qs = append(qs, preflight(o, "GET", []string{strings.Join(allowedL, ",")}, false))
			} else {
				qs = append(qs, preflight(o, "GET", []string{"x-foo"}, false))
			}
		}
	}
	// preflight-only request headers on requests that are NOT preflights (a browser
	// never does this; other clients may)
	qs = append(qs, Req{Method: "GET", H: []HV{{hACRPN, []string{"true"}}}})
	for _, o := range origins[:min(2, len(origins))] {
		qs = append(qs,
			Req{Method: "GET", H: []HV{{hOrigin, []string{o}}, {hACRPN, []string{"true"}}}},
			Req{Method: "POST", H: []HV{{hOrigin, []string{o}}, {hACRM, []string{"PUT"}}, {hACRH, []string{"x-foo"}}, {hACRPN, []string{"true"}}}},
			Req{Method: "OPTIONS", H: []HV{{hOrigin, []string{o}}, {hACRPN, []string{"true"}}, {hACRH, []string{"x-foo"}}}},
		)
	}
	// header NAMES that are new in the tree under test (dict.go), as request headers saying
	// "true" / a mined value: on a plain request, an actual request, a preflight, and next to
	// the private-network request header
	if nov := dict.tokens.novel; len(nov) > 0 && len(origins) > 0 {
		k := int(fnv32(c.String()) & 0x7fffffff)
		o := origins[0]
		for j := 0; j < min(3, len(nov)); j++ {
			name := canonicalKey(nov[(k+j)%len(nov)])
			if name == hOrigin || name == hACRM {
				continue
			}
			val := []string{"true", "true", dict.any.at(k/7 + j)}[j%3]
			qs = append(qs,
				Req{Method: "GET", H: []HV{{name, []string{val}}}},
				Req{Method: "GET", H: []HV{{hOrigin, []string{o}}, {name, []string{val}}}},
				Req{Method: "POST", H: []HV{{hOrigin, []string{o}}, {name, []string{"true"}}, {hACRPN, []string{"true"}}}},
				preflight(o, "PUT", nil, false).with(name, val),
				preflight(o, "GET", nil, true).with(name, "true"),
				preflight(o, "GET", nil, false).with(name, "false").with(hACRPN, "true"),
			)
		}
	}
	if len(match) > 0 {
		o := match[0]
		// multi-valued Origin / ACRM, as a non-browser client may send
		qs = append(qs,
			Req{Method: "GET", H: []HV{{hOrigin, []string{o, "https://evil.test"}}}},
			Req{Method: "GET", H: []HV{{hOrigin, []string{"https://evil.test", o}}}},
			Req{Method: "OPTIONS", H: []HV{{hOrigin, []string{o}}, {hACRM, []string{"GET", "UNLISTED"}}}},
			// field lines of which some or all are empty
			Req{Method: "OPTIONS", H: []HV{{hOrigin, []string{o}}, {hACRM, []string{"", ""}}}},
			Req{Method: "OPTIONS", H: []HV{{hOrigin, []string{"", ""}}, {hACRM, []string{"PUT"}}}},
			Req{Method: "OPTIONS", H: []HV{{hOrigin, []string{"", o}}, {hACRM, []string{"", "PUT"}}}},
			Req{Method: "GET", H: []HV{{hOrigin, []string{"", o}}}},
			preflight(o, "PUT", []string{"", ""}, false),
			preflight(o, "PUT", []string{"", "", "x-not-allowed"}, false),
		)
	}
	// every fifth request arrives in another shape of *http.Request (protocol version,
	// TLS, path and query, OPTIONS *, body, cancelled context, ...: Req.Shape)
	for i := 2; i < len(qs); i += 5 {
		qs[i].Shape = (i/5)%(nShapes-1) + 1
	}
	return qs
}

// debugProbes returns every preflight from an allowed origin that fails AFTER
// the origin step under c (so that debug mode is observable): by method, by
// private-network request, by requested headers (single name, padded list,
// list with an allowed name in front).
func debugProbes(c Cfg) []Req {
	match, _ := originsFor(c)
	if len(match) == 0 {
		return nil
	}
	o := match[0]
	hasStar := func(l []string) bool {
		for _, x := range l {
			if x == "*" {
				return true
			}
		}
		return false
	}
	var out []Req
	if !hasStar(c.Methods) {
		out = append(out, preflight(o, "UNLISTED", nil, false))
	}
	if !c.PNA && !c.PNANoCors {
		out = append(out, preflight(o, "GET", nil, true))
	}
	if !hasStar(c.RequestHeaders) {
		out = append(out, preflight(o, "GET", []string{"x-not-allowed"}, false))
		var allowed []string
		for _, h := range c.RequestHeaders {
			allowed = append(allowed, h)
		}
		if al := lowerSortedUnique(allowed); len(al) > 0 {
			out = append(out, preflight(o, "GET", []string{al[0] + ",zz-not-allowed"}, false))
		}
	}
	return out
}

// debugProbe returns the first of debugProbes(c), or ok=false.
func debugProbe(c Cfg) (Req, bool) { return debugProbeK(c, 0) }

// debugProbeK returns the k-th (mod n) debug probe of c.
func debugProbeK(c Cfg, k int) (Req, bool) {
	ps := debugProbes(c)
	if len(ps) == 0 {
		return Req{}, false
	}
	if k < 0 {
		k = -k
	}
	return ps[k%len(ps)], true
}

func fnv32(s string) uint32 {
	h := uint32(2166136261)
	for i := 0; i < len(s); i++ {
		h ^= uint32(s[i])
		h *= 16777619
	}
	return h
}

func canonicalKey(s string) string {
	b := []byte(strings.ToLower(s))
	up := true
	for i, ch := range b {
		if up && ch >= 'a' && ch <= 'z' {
			b[i] = ch - 32
		}
		up = ch == '-'
	}
	return string(b)
}
