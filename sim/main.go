package main

import (
	"encoding/json"
	"flag"
	"fmt"
	"os"
	"runtime"
	"runtime/debug"
	"sort"
	"strconv"
	"strings"
	"time"
)

func usage() {
	fmt.Fprintln(os.Stderr, `usage:
  simcheck run <property> [-tier quick|thorough] [-runs N] [-workers N] [-inproc]
  simcheck replay [-quiet] <file>
  simcheck selftest <property> [-seeds N]     (prints plan/log hashes; used by the determinism self-test)
  simcheck list`)
	os.Exit(2)
}

func envSeed(tier string) uint64 {
	if s := os.Getenv("VERIF_SEED"); s != "" {
		if v, err := strconv.ParseUint(s, 10, 64); err == nil {
			return v
		}
		if v, err := strconv.ParseInt(s, 10, 64); err == nil {
			return uint64(v)
		}
		fatal2("VERIF_SEED=%q is not an integer", s)
	}
	if tier == "thorough" {
		return 20261004
	}
	return 1
}

// memWatchdog: no plan, shrink step or changed library may take the machine down. A
// process whose resident set passes the cap stops with exit 2 (harness trouble, never a
// verdict on the property). The -race stress binary is exempt (the race runtime's own
// shadow memory is large but bounded by its workload).
func memWatchdog(capBytes int64) {
	page := int64(os.Getpagesize())
	for {
		time.Sleep(300 * time.Millisecond)
		b, err := os.ReadFile("/proc/self/statm")
		if err != nil {
			return
		}
		f := strings.Fields(string(b))
		if len(f) < 2 {
			return
		}
		rss, _ := strconv.ParseInt(f[1], 10, 64)
		if rss*page > capBytes {
			fmt.Fprintf(os.Stderr, "simcheck: HARNESS ERROR: resident set %d MB exceeds the %d MB cap (args %v); stopping with exit 2, not a verdict on the property\n", rss*page>>20, capBytes>>20, os.Args[1:])
			os.Exit(2)
		}
	}
}

func main() {
	debug.SetGCPercent(400) // runs are allocation-heavy and short-lived
	if len(os.Args) > 1 && os.Args[1] != "stress" {
		go memWatchdog(5 << 30)
	}
	if len(os.Args) < 2 {
		usage()
	}
	loadDict()
	switch os.Args[1] {
	case "dict": // what was mined from $VERIF_REPO
		b, _ := json.MarshalIndent(map[string]any{"summary": dict.summary(), "novel_strings": dict.any.novel, "novel_ports": dict.ports.novel, "origins": dict.origins.all, "hosts": dict.hosts.all, "schemes": dict.schemes.all, "tokens": dict.tokens.all, "ports": dict.ports.all, "status": dict.status.all, "sizes": dict.sizes.all, "out_of_range_max_age": dict.badMaxAge.all}, "", " ")
		fmt.Println(string(b))
	case "dict-baseline": // the raw literals of $VERIF_REPO, to be stored as sim/dict_baseline.json for the pinned tree
		b, _ := json.Marshal(dictBaseline{Strings: dict.rawStrings, Ints: dict.rawInts})
		fmt.Println(string(b))
	case "list":
		var ids []string
		for id := range engines {
			ids = append(ids, id)
		}
		sort.Strings(ids)
		for _, id := range ids {
			fmt.Println(id)
		}
	case "run":
		if len(os.Args) < 3 {
			usage()
		}
		id := os.Args[2]
		fs := flag.NewFlagSet("run", flag.ExitOnError)
		tier := fs.String("tier", envOr("VERIF_TIER", "quick"), "quick|thorough")
		runs := fs.Int("runs", 0, "override number of runs")
		workers := fs.Int("workers", 0, "worker processes (default: all cores)")
		inproc := fs.Bool("inproc", false, "single process, no workers")
		fs.Parse(os.Args[3:])
		e, ok := engines[id]
		if !ok {
			fatal2("no engine for %q in this binary", id)
		}
		w := *workers
		if w == 0 {
			w = runtime.NumCPU()
		}
		os.Exit(runCheck(e, *tier, envSeed(*tier), w, *runs, *inproc))
	case "shard": // internal: shard <id> <tier> <seed> <k> <n> <total> <deadlineUnixNano> <out>
		a := os.Args[2:]
		if len(a) != 8 {
			usage()
		}
		e, ok := engines[a[0]]
		if !ok {
			fatal2("no engine for %q", a[0])
		}
		seed, _ := strconv.ParseUint(a[2], 10, 64)
		k, _ := strconv.Atoi(a[3])
		n, _ := strconv.Atoi(a[4])
		total, _ := strconv.Atoi(a[5])
		dl, _ := strconv.ParseInt(a[6], 10, 64)
		// hard watchdog: the deadline is looked at between runs only; a run that never returns
		// (the library under test blocks, or the baton of the scheduler is lost to a goroutine
		// the library started) must end as harness trouble (exit 2), not as a hang
		go func() {
			time.Sleep(time.Until(time.Unix(0, dl)) + 120*time.Second)
			fatal2("watchdog: worker %d/%d of %s still inside one run 120 s after its deadline (a run hangs: the library under test blocks, or a goroutine it started got in the way of the scheduler); this is not a verdict on the property", k, n, a[0])
		}()
		res := runShard(e, a[1], seed, k, n, total, time.Unix(0, dl))
		writePartial(a[7], res)
	case "exec": // internal: exec <id> <planfile>
		if len(os.Args) != 4 {
			usage()
		}
		go func() { // (same watchdog for a single plan executed in a fresh process)
			time.Sleep(10 * time.Minute)
			fatal2("watchdog: one plan still executing after 10 minutes (hang); not a verdict on the property")
		}()
		execCmd(os.Args[2], os.Args[3])
	case "stress": // data-race companion of C07; build this binary with -race
		fs := flag.NewFlagSet("stress", flag.ExitOnError)
		d := fs.Duration("d", 8*time.Second, "duration")
		g := fs.Int("g", 16, "goroutines")
		out := fs.String("out", "", "stats JSON")
		fs.Parse(os.Args[2:])
		os.Exit(stressCmd(*d, *g, envSeed("quick"), *out))
	case "replay":
		fs := flag.NewFlagSet("replay", flag.ExitOnError)
		quiet := fs.Bool("quiet", false, "")
		fs.Parse(os.Args[2:])
		if fs.NArg() != 1 {
			usage()
		}
		os.Exit(replay(fs.Arg(0), *quiet))
	case "selftest":
		if len(os.Args) < 3 {
			usage()
		}
		e, ok := engines[os.Args[2]]
		if !ok {
			fatal2("no engine for %q", os.Args[2])
		}
		fs := flag.NewFlagSet("selftest", flag.ExitOnError)
		seeds := fs.Int("seeds", 64, "")
		tier := fs.String("tier", "quick", "")
		fs.Parse(os.Args[3:])
		seed := envSeed(*tier)
		for i := 0; i < *seeds; i++ {
			plan := e.Gen(newR(seed, uint64(i)), *tier)
			c := newCtx(true)
			v := safeExec(e, plan, c)
			cls := "-"
			if v != nil {
				cls = v.Class
			}
			fmt.Printf("%s run=%d plan=%016x log=%s steps=%d viol=%s\n", e.ID(), i, hash64(planJSON(plan)), logHash(c.Log), c.Steps, cls)
		}
	default:
		usage()
	}
}

func envOr(k, d string) string {
	if v := os.Getenv(k); v != "" {
		return v
	}
	return d
}
