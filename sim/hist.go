package main

// hist.go — histsim for C06 (snapshot/restore faults, F2) and C08 (rejected
// Reconfigure faults, F1): call histories on one middleware with faults placed
// at arbitrary positions, observed before and after each fault. Both oracles
// are differentials of the real code against its own earlier self; they hold
// no opinion on what the right CORS answer is.

import (
	"encoding/json"
	"fmt"
	"reflect"
	"time"

	"github.com/jub0bs/cors"
)

type HStep struct {
	Kind    string    `json:"kind"` // new | zero_reconf | reconf | reconf_nil | setdebug | restore | restart | double_restore | reject
	Cfg     int       `json:"cfg,omitempty"`
	Debug   bool      `json:"debug,omitempty"`
	Planted []Planted `json:"planted,omitempty"` // reject: what is planted into Cfgs[Cfg]
	// reject, the `cfg := m.Config(); cfg.X = ...; m.Reconfigure(cfg)` flow: the
	// rejected configuration is derived from the CURRENT Config() (if any) with
	// these valid origins appended, and the violations planted into that.
	FromCurrent bool     `json:"from_current,omitempty"`
	AddOrigins  []string `json:"add_origins,omitempty"`
}

type HistPlan struct {
	Cfgs  []Cfg   `json:"cfgs"`
	Steps []HStep `json:"steps"`
	Perm  uint64  `json:"perm"` // derives the probe order; pure function of the plan
}

// observation of a middleware: responses to a suite, Config() value
type obs struct {
	resps []Resp
	cfg   *cors.Config
}

// longLived remembers, per middleware, a handler wrapped right after creation
// (possibly while still passthrough) and kept across every later Reconfigure;
// observations alternate between it and a freshly wrapped handler.
var longLived = map[*cors.Middleware]*mwServer{}
var observeTick int

func observeMW(m *cors.Middleware, suite []Req) (o obs, pan string) {
	pan = catch(func() {
		pokeGetters(m)
		srv := longLived[m]
		observeTick++
		if srv == nil || observeTick%2 == 0 {
			srv = newServer(m.Wrap)
		}
		o.resps = make([]Resp, len(suite))
		for i, q := range suite {
			o.resps[i] = srv.do(q)
		}
		o.cfg = m.Config()
	})
	return
}

func diffObs(a, b obs, suite []Req, cmpCfg bool) string {
	for i := range a.resps {
		if a.resps[i] != b.resps[i] {
			return fmt.Sprintf("request %s: before %s; after %s", suite[i], a.resps[i], b.resps[i])
		}
	}
	if cmpCfg && !reflect.DeepEqual(a.cfg, b.cfg) {
		return fmt.Sprintf("Config(): before %s; after %s", cfgStr(a.cfg), cfgStr(b.cfg))
	}
	return ""
}

func cfgStr(c *cors.Config) string {
	if c == nil {
		return "<nil>"
	}
	return fromConfig(c).String()
}

// suiteFor builds the observation suite for a history: the full suite of the
// configuration believed current (plan-level "last successful write"; it only
// selects probes, never expected answers), a slice of every other
// configuration's suite, and for a rejected configuration its own probes too.
func suiteFor(cfgs []Cfg, cur int, extra *Cfg) []Req {
	var qs []Req
	if cur >= 0 {
		qs = append(qs, probeSuite(cfgs[cur])...)
		if q, ok := debugProbe(cfgs[cur]); ok {
			qs = append(qs, q)
		}
	} else {
		qs = append(qs, Req{Method: "GET"}, preflight("https://example.com", "PUT", nil, false))
	}
	for i, c := range cfgs {
		if i == cur {
			continue
		}
		s := probeSuite(c)
		for j := 0; j < len(s); j += 7 {
			qs = append(qs, s[j])
		}
	}
	if extra != nil {
		s := probeSuite(*extra)
		for j := 0; j < len(s); j += 5 {
			qs = append(qs, s[j])
		}
	}
	return qs
}

type histEngine struct {
	id string
}

func init() { register(histEngine{"C06"}); register(histEngine{"C08"}) }

func (e histEngine) ID() string    { return e.id }
func (e histEngine) Level() string { return "exploration" }
func (e histEngine) Rule() string {
	if e.id == "C06" {
		return "one case = a call history of 3..12 steps on one middleware over 1..3 accepted configurations (NewMiddleware, zero value+Reconfigure, SetDebug, Reconfigure, Reconfigure(nil)) with snapshot/restore faults at seeded positions: restore m.Reconfigure(m.Config()), restart m<-NewMiddleware(*m.Config()), double restore; at every fault the probe suite is compared before/after (also after three round trips), Config() must be a fixpoint from the first round trip on, and constructor twins are compared in both debug modes; observations alternate between a handler wrapped at creation and a fresh one; distinct = distinct plan hash; non-trivial = at least one restore/restart fault executed on a configured middleware"
	}
	return "one case = a call history of 2..10 steps on one middleware (passthrough or configured, debug on/off) with 1..3 rejected Reconfigure faults: a valid configuration different from the current one with 1..4 planted documented violations; at every fault the error must be non-nil and probe suite, Config() and the debug probe must be identical before and after; a third of the rejected configurations are derived from the live Config() plus appended valid origins; at those faults the value Config() returned is also edited in place (one Origins element made invalid) and fed back, which must be rejected too; a SHADOW TWIN lives through the same history without the rejected calls and must stay indistinguishable (latent traces); observations alternate between a handler wrapped at creation and a fresh one; distinct = distinct plan hash; non-trivial = at least one rejected Reconfigure executed"
}
func (e histEngine) Budget(tier string) (int, time.Duration) {
	if tier == "thorough" {
		return 1_500_000, 12 * time.Minute
	}
	if e.id == "C06" {
		return 20_000, 45 * time.Second
	}
	return 30_000, 45 * time.Second
}
func (e histEngine) Assumptions() []string {
	a := []string{
		"differential oracle: the real code before the fault is the reference for the real code after it",
		"the probe suite is derived from the configurations of the plan (matching origins and near-misses of every pattern, every dispatch path); behaviour outside the suite is not observed",
		"requests are built the way net/http delivers them (canonical keys)",
	}
	if e.id == "C08" {
		a = append(a, "every planted violation is a literal 'prohibited' case of the Config documentation")
	}
	return a
}
func (e histEngine) Parties() map[string]string {
	return map[string]string{"cors.Middleware and all internal packages": "real", "operator issuing the history and the faults": "stub", "wrapped handler / ResponseWriter": "stub (constant handler, recording writer)", "reference": "the real code's own earlier observation (no model)"}
}
func (e histEngine) FaultKinds() []string {
	if e.id == "C06" {
		return []string{"F2_restore", "F2_restart", "F2_double_restore", "F2_restore_on_passthrough", "F2_restore_via_passthrough"}
	}
	return []string{"F1_rejected_reconfigure", "F1_on_passthrough", "F1_on_configured_debug_on", "F1_multi_violation", "F1_derived_from_current_config", "F1_rejected_mid_stream"}
}
func (e histEngine) Probes() []string {
	if e.id == "C06" {
		return []string{"ipv6_origin_round_trip", "wildcard_port_round_trip", "star_mixed_round_trip", "trailing_dot_round_trip", "twins_compared", "config_idempotent_checked", "caller_edits_the_config_value_it_fed_back"}
	}
	return []string{"rejected_differs_from_current", "before_after_compared", "shadow_twin_compared"}
}

func (e histEngine) Gen(r *R, tier string) any {
	allowHugeOriginLists = false
	observeUnknownAPI = true
	p := &HistPlan{Perm: r.Uint64()}
	n := r.Range(1, 3)
	for i := 0; i < n; i++ {
		if i > 0 && r.P(0.4) { // related configurations: what one history moves between is rarely unrelated
			p.Cfgs = append(p.Cfgs, varyCfg(r, p.Cfgs[r.Intn(i)]))
			continue
		}
		p.Cfgs = append(p.Cfgs, genCfgX(r))
	}
	// start
	if r.P(0.5) {
		p.Steps = append(p.Steps, HStep{Kind: "new", Cfg: r.Intn(n)})
	} else if r.P(0.7) {
		p.Steps = append(p.Steps, HStep{Kind: "zero_reconf", Cfg: r.Intn(n)})
	} else {
		p.Steps = append(p.Steps, HStep{Kind: "zero"})
	}
	var k int
	if e.id == "C06" {
		k = r.Range(2, 11)
	} else {
		k = r.Range(1, 9)
	}
	for i := 0; i < k; i++ {
		x := r.Intn(100)
		switch {
		case x < 18:
			p.Steps = append(p.Steps, HStep{Kind: "reconf", Cfg: r.Intn(n)})
		case x < 24:
			p.Steps = append(p.Steps, HStep{Kind: "reconf_nil"})
		case x < 45:
			p.Steps = append(p.Steps, HStep{Kind: "setdebug", Debug: r.P(0.6)})
		default:
			if e.id == "C06" {
				p.Steps = append(p.Steps, HStep{Kind: pick(r, []string{"restore", "restore", "restart", "double_restore", "restore_via_nil"})})
			} else {
				st := HStep{Kind: "reject", Cfg: r.Intn(n), Planted: genPlanted(r, pick(r, []int{1, 1, 1, 2, 3, 4}))}
				if r.P(0.35) {
					st.FromCurrent = true
					for k := r.Intn(3); k > 0; k-- {
						st.AddOrigins = append(st.AddOrigins, "https://"+pick(r, []string{"added.example.net", "example.org", "zz.example.com", "a.test", randDomain(r)})+pick(r, []string{"", "", ":8443", ":*"}))
					}
				}
				p.Steps = append(p.Steps, st)
			}
		}
	}
	return p
}

func (e histEngine) Decode(b []byte) (any, error) {
	var p HistPlan
	err := json.Unmarshal(b, &p)
	return &p, err
}

func (e histEngine) Exec(plan any, c *Ctx) *Violation {
	observeUnknownAPI = true
	p := plan.(*HistPlan)
	pokeThisRun = p.Perm%3 == 0
	var m *cors.Middleware
	// C08 only: a shadow twin lives through the same history WITHOUT the rejected
	// calls; a rejected call must leave no trace, not even a latent one that
	// only a later successful call reveals.
	var shadow *cors.Middleware
	rejectedSince := false
	cur := -1 // plan-level belief, used only to select probes
	dbgBelief := false
	twinDone := map[int]bool{}
	longLived = map[*cors.Middleware]*mwServer{}
	observeTick = 0
	for si, st := range p.Steps {
		betweenSteps("a step")
		label := fmt.Sprintf("#%d %s", si, st.Kind)
		if st.Cfg >= len(p.Cfgs) {
			st.Cfg = 0
		}
		var err error
		var v *Violation
		pan := catch(func() {
			switch st.Kind {
			case "new":
				cc := p.Cfgs[st.Cfg].Config()
				m, err = mkMW(cc)
				if m != nil {
					longLived[m] = newServer(m.Wrap)
				}
				cur = st.Cfg
			case "zero":
				m = zeroMW()
				longLived[m] = newServer(m.Wrap)
			case "zero_reconf":
				m = zeroMW()
				longLived[m] = newServer(m.Wrap) // wrapped while still passthrough
				cc := p.Cfgs[st.Cfg].Config()
				err = reconfN(m, &cc)
				cur = st.Cfg
			case "reconf":
				cc := p.Cfgs[st.Cfg].Config()
				err = reconfN(m, &cc)
				cur = st.Cfg
			case "reconf_nil":
				err = reconfN(m, nil)
				cur = -1
				dbgBelief = false
			case "setdebug":
				setDebugN(m, st.Debug)
				dbgBelief = st.Debug && cur >= 0
			case "restore_via_nil":
				if dbgBelief { // (Reconfigure(nil) switches debug off: the plain round trip instead)
					st.Kind = "restore"
				}
				v = e.f2(p, m, cur, st.Kind, label, c, &m, twinDone)
			case "restore", "restart", "double_restore":
				v = e.f2(p, m, cur, st.Kind, label, c, &m, twinDone)
			case "reject":
				v = e.f1(p, m, cur, st, label, c)
			}
		})
		if pan != "" {
			return &Violation{Class: "panic", Key: st.Kind, Detail: label + ": " + pan}
		}
		if v != nil {
			return v
		}
		if err != nil || m == nil {
			c.hit("generator_rejected")
			c.logf("%s: generated configuration rejected (%v); run abandoned", label, err)
			return nil
		}
		c.logf("%s cfg=%d debug=%v", label, st.Cfg, st.Debug)
		if e.id == "C08" {
			pan := catch(func() {
				switch st.Kind {
				case "new":
					shadow, _ = mkMW(p.Cfgs[st.Cfg].Config())
				case "zero":
					shadow = zeroMW()
				case "zero_reconf":
					shadow = zeroMW()
					cc := p.Cfgs[st.Cfg].Config()
					shadow.Reconfigure(&cc)
				case "reconf":
					cc := p.Cfgs[st.Cfg].Config()
					shadow.Reconfigure(&cc)
				case "reconf_nil":
					shadow.Reconfigure(nil)
				case "setdebug":
					shadow.SetDebug(st.Debug)
				case "reject":
					rejectedSince = true
				}
			})
			if pan != "" || shadow == nil {
				return nil
			}
			last := si == len(p.Steps)-1
			if rejectedSince && st.Kind != "reject" && (st.Kind != "setdebug" || last) || rejectedSince && last {
				suite := suiteFor(p.Cfgs, cur, nil)
				a, p1 := observeMW(shadow, suite)
				b, p2 := observeMW(m, suite)
				if p1+p2 != "" {
					return &Violation{Class: "panic", Key: "observe", Detail: label + ": " + p1 + p2}
				}
				c.hit("shadow_twin_compared")
				if d := diffObs(a, b, suite, true); d != "" {
					return &Violation{Class: "latent-trace-of-rejected-reconfigure", Key: "shadow", Detail: fmt.Sprintf("%s: a middleware that went through the same history WITHOUT the rejected Reconfigure calls differs: %s (first = without, second = with)", label, d)}
				}
			}
		}
	}
	return nil
}

// f2: snapshot/restore faults (C06)
func (e histEngine) f2(p *HistPlan, m *cors.Middleware, cur int, kind, label string, c *Ctx, mp **cors.Middleware, twinDone map[int]bool) *Violation {
	suite := suiteFor(p.Cfgs, cur, nil)
	before, pan := observeMW(m, suite)
	if pan != "" {
		return &Violation{Class: "panic", Key: "observe", Detail: label + ": " + pan}
	}
	if cur < 0 {
		c.hit("F2_restore_on_passthrough")
	} else {
		c.Nontrivial = true
		for _, o := range p.Cfgs[cur].Origins {
			pp, ok := splitPattern(o)
			switch {
			case o == "*" && len(p.Cfgs[cur].Origins) > 1:
				c.hit("star_mixed_round_trip")
			case ok && len(pp.Host) > 0 && pp.Host[0] == '[':
				c.hit("ipv6_origin_round_trip")
			case ok && pp.Port == "*":
				c.hit("wildcard_port_round_trip")
			case ok && len(pp.Host) > 0 && pp.Host[len(pp.Host)-1] == '.':
				c.hit("trailing_dot_round_trip")
			}
		}
	}
	snap := m.Config()
	key := "passthrough"
	if snap != nil {
		key = fromConfig(snap).String()
	}
	switch kind {
	case "restore", "double_restore":
		n := 1
		if kind == "double_restore" {
			n = 2
			c.hit("F2_double_restore")
		} else {
			c.hit("F2_restore")
		}
		for i := 0; i < n; i++ {
			if err := m.Reconfigure(m.Config()); err != nil {
				return &Violation{Class: "restore-rejected", Key: key, Detail: fmt.Sprintf("%s: m.Reconfigure(m.Config()) failed with %q; Config() = %s", label, err, key)}
			}
		}
		after, pan := observeMW(m, suite)
		if pan != "" {
			return &Violation{Class: "panic", Key: "observe", Detail: label + ": " + pan}
		}
		c.logf("%s: compared %d responses before/after", label, len(suite))
		// Config() may legitimately change on the FIRST round trip (redundant
		// patterns collapse); responses may not, and Config() must be a fixpoint
		// from then on.
		if d := diffObs(before, after, suite, false); d != "" {
			return &Violation{Class: "restore-changed-behaviour", Key: key, Detail: label + ": " + d}
		}
		c1 := m.Config()
		if err := m.Reconfigure(m.Config()); err != nil {
			return &Violation{Class: "restore-rejected", Key: cfgStr(c1), Detail: fmt.Sprintf("%s: second m.Reconfigure(m.Config()) failed with %q; Config() = %s", label, err, cfgStr(c1))}
		}
		c2 := m.Config()
		c.hit("config_idempotent_checked")
		if !reflect.DeepEqual(c1, c2) {
			return &Violation{Class: "config-not-fixpoint", Key: cfgStr(c1), Detail: fmt.Sprintf("%s: Config() after a round trip %s; after one more %s", label, cfgStr(c1), cfgStr(c2))}
		}
		if err := m.Reconfigure(m.Config()); err != nil {
			return &Violation{Class: "restore-rejected", Key: cfgStr(c2), Detail: fmt.Sprintf("%s: third m.Reconfigure(m.Config()) failed with %q", label, err)}
		}
		if c3 := m.Config(); !reflect.DeepEqual(c2, c3) {
			return &Violation{Class: "config-not-fixpoint", Key: cfgStr(c2), Detail: fmt.Sprintf("%s: Config() after two round trips %s; after three %s", label, cfgStr(c2), cfgStr(c3))}
		}
		after3, pan := observeMW(m, suite)
		if pan != "" {
			return &Violation{Class: "panic", Key: "observe", Detail: label + ": " + pan}
		}
		if d := diffObs(before, after3, suite, false); d != "" {
			return &Violation{Class: "restore-changed-behaviour", Key: key, Detail: label + " (after three round trips): " + d}
		}
		// the caller owns what Config() returned ("a deep copy"): it fed the value back and now
		// edits it in place (narrows every list to one value of its own). Neither the
		// round-tripped middleware nor the next Config() may notice.
		if own := m.Config(); own != nil {
			fed := m.Config()
			if err := m.Reconfigure(fed); err != nil {
				return &Violation{Class: "restore-rejected", Key: cfgStr(own), Detail: fmt.Sprintf("%s: fourth m.Reconfigure(m.Config()) failed with %q", label, err)}
			}
			for _, l := range [][]string{fed.Origins, fed.Methods, fed.RequestHeaders, fed.ResponseHeaders} {
				for i := range l {
					l[i] = "https://narrowed-by-the-caller.example.org"
				}
			}
			c.hit("caller_edits_the_config_value_it_fed_back")
			after4, pan := observeMW(m, suite)
			if pan != "" {
				return &Violation{Class: "panic", Key: "observe", Detail: label + ": " + pan}
			}
			if d := diffObs(before, after4, suite, false); d != "" {
				return &Violation{Class: "restore-changed-behaviour", Key: key, Detail: label + " (after the caller edited, in place, the Config() value it had fed back): " + d}
			}
			if c4 := m.Config(); !reflect.DeepEqual(own, c4) {
				return &Violation{Class: "config-not-fixpoint", Key: cfgStr(own), Detail: fmt.Sprintf("%s: Config() was %s; after the caller edited the value it had fed back it is %s", label, cfgStr(own), cfgStr(c4))}
			}
		}
	case "restore_via_nil":
		// the operator saves Config(), switches CORS off, and later feeds the saved value
		// back: the same middleware must answer as before (debug is off on both sides)
		if snap == nil {
			return nil
		}
		if q, ok := debugProbe(p.Cfgs[cur]); ok && isOK(newServer(m.Wrap).do(q).Status) {
			return nil // debug is on after all: not this fault's business
		}
		c.hit("F2_restore_via_passthrough")
		if err := m.Reconfigure(nil); err != nil {
			return &Violation{Class: "restore-rejected", Key: "nil", Detail: fmt.Sprintf("%s: Reconfigure(nil) failed with %q", label, err)}
		}
		if err := m.Reconfigure(snap); err != nil {
			return &Violation{Class: "restore-rejected", Key: key, Detail: fmt.Sprintf("%s: saved := m.Config(); m.Reconfigure(nil); m.Reconfigure(saved) failed with %q; saved = %s", label, err, key)}
		}
		after, pan := observeMW(m, suite)
		if pan != "" {
			return &Violation{Class: "panic", Key: "observe", Detail: label + ": " + pan}
		}
		if d := diffObs(before, after, suite, false); d != "" {
			return &Violation{Class: "restore-changed-behaviour", Key: key, Detail: label + " (saved := m.Config(); m.Reconfigure(nil); m.Reconfigure(saved)): " + d}
		}
	case "restart":
		c.hit("F2_restart")
		if snap == nil {
			return nil
		}
		m2, err := mkMW(*snap)
		if err != nil {
			return &Violation{Class: "restore-rejected", Key: key, Detail: fmt.Sprintf("%s: NewMiddleware(*m.Config()) failed with %q; Config() = %s", label, err, key)}
		}
		// the restarted process re-applies the debug mode it observes on the old one
		if q, ok := debugProbe(p.Cfgs[cur]); ok {
			r := newServer(m.Wrap).do(q)
			m2.SetDebug(isOK(r.Status))
		}
		after, pan := observeMW(m2, suite)
		if pan != "" {
			return &Violation{Class: "panic", Key: "observe", Detail: label + ": " + pan}
		}
		c.logf("%s: compared %d responses old/restarted", label, len(suite))
		if d := diffObs(before, after, suite, false); d != "" {
			return &Violation{Class: "restart-changed-behaviour", Key: key, Detail: label + ": " + d}
		}
		*mp = m2
	}
	if cur < 0 || twinDone[cur] {
		return nil
	}
	twinDone[cur] = true
	// constructor twins, both debug modes; Config() fixpoint
	cc := p.Cfgs[cur]
	m1, err1 := mkMW(cc.Config())
	m3 := zeroMW()
	c3 := cc.Config()
	err3 := m3.Reconfigure(&c3)
	if err1 != nil || err3 != nil {
		if (err1 == nil) != (err3 == nil) {
			return &Violation{Class: "constructors-disagree", Key: cc.String(), Detail: fmt.Sprintf("NewMiddleware: %v; zero+Reconfigure: %v", err1, err3)}
		}
		return nil
	}
	c1 := m1.Config()
	m2, err2 := mkMW(*c1)
	if err2 != nil {
		return &Violation{Class: "restore-rejected", Key: fromConfig(c1).String(), Detail: fmt.Sprintf("NewMiddleware(*Config()) failed with %q for Config() = %s of %s", err2, fromConfig(c1), cc)}
	}
	c2 := m2.Config() // one round trip
	m4, err4 := mkMW(*c2)
	if err4 != nil {
		return &Violation{Class: "restore-rejected", Key: fromConfig(c2).String(), Detail: fmt.Sprintf("NewMiddleware(*Config()) failed with %q for Config() = %s (second generation of %s)", err4, fromConfig(c2), cc)}
	}
	c4 := m4.Config() // two round trips
	c.hit("config_idempotent_checked")
	if !reflect.DeepEqual(c2, c4) {
		return &Violation{Class: "config-not-fixpoint", Key: fromConfig(c2).String(), Detail: fmt.Sprintf("cfg %s: Config() after one round trip %s; after two %s", cc, fromConfig(c2), fromConfig(c4))}
	}
	full := suiteFor(p.Cfgs, cur, nil)
	for _, dbg := range []bool{false, true} {
		m1.SetDebug(dbg)
		m2.SetDebug(dbg)
		m3.SetDebug(dbg)
		o1, p1 := observeMW(m1, full)
		o2, p2 := observeMW(m2, full)
		o3, p3 := observeMW(m3, full)
		if p1+p2+p3 != "" {
			return &Violation{Class: "panic", Key: "observe", Detail: p1 + p2 + p3}
		}
		c.hit("twins_compared")
		if d := diffObs(o1, o2, full, false); d != "" {
			return &Violation{Class: "config-twin-differs", Key: cc.String(), Detail: fmt.Sprintf("debug=%v cfg=%s vs its Config() %s: %s", dbg, cc, fromConfig(c1), d)}
		}
		if d := diffObs(o1, o3, full, false); d != "" {
			return &Violation{Class: "zero-value-twin-differs", Key: cc.String(), Detail: fmt.Sprintf("debug=%v cfg=%s NewMiddleware vs zero+Reconfigure: %s", dbg, cc, d)}
		}
	}
	return nil
}

// f1: rejected Reconfigure (C08)
func (e histEngine) f1(p *HistPlan, m *cors.Middleware, cur int, st HStep, label string, c *Ctx) *Violation {
	base := p.Cfgs[st.Cfg]
	if st.FromCurrent {
		if live := m.Config(); live != nil {
			base = *fromConfig(live)
			base.Origins = append(base.Origins, st.AddOrigins...)
			c.hit("F1_derived_from_current_config")
		}
	}
	bad := plantAll(base, st.Planted)
	suite := suiteFor(p.Cfgs, cur, &bad)
	before, pan := observeMW(m, suite)
	if pan != "" {
		return &Violation{Class: "panic", Key: "observe", Detail: label + ": " + pan}
	}
	c.hit("F1_rejected_reconfigure")
	c.Nontrivial = true
	if cur < 0 {
		c.hit("F1_on_passthrough")
	} else if q, ok := debugProbe(p.Cfgs[cur]); ok && isOK(newServer(m.Wrap).do(q).Status) {
		c.hit("F1_on_configured_debug_on")
	}
	if len(st.Planted) > 1 {
		c.hit("F1_multi_violation")
	}
	if cur != st.Cfg {
		c.hit("rejected_differs_from_current")
	}
	cc := bad.Config()
	err := reconfN(m, &cc)
	if err == nil {
		return &Violation{Class: "accepted-invalid", Key: bad.String(), Detail: fmt.Sprintf("%s: Reconfigure accepted %s (planted %v)", label, bad, st.Planted)}
	}
	after, pan := observeMW(m, suite)
	if pan != "" {
		return &Violation{Class: "panic", Key: "observe", Detail: label + ": " + pan}
	}
	c.hit("before_after_compared")
	c.logf("%s: rejected with %d-violation config; compared %d responses", label, len(st.Planted), len(suite))
	if d := diffObs(before, after, suite, true); d != "" {
		return &Violation{Class: "state-changed", Key: "rejected-reconfigure", Detail: fmt.Sprintf("%s: after rejected Reconfigure(%s): %s", label, bad, d)}
	}
	// the literal `cfg := m.Config(); cfg.Origins[i] = <bad>; m.Reconfigure(cfg)` flow (seeded change
	// w42-C08: a "same as what Config() handed out" fast path whose remembered copy shares its slices
	// with the caller's): the value Config() returned is edited IN PLACE, one element, and fed back.
	if st.FromCurrent {
		if own := m.Config(); own != nil && len(own.Origins) > 0 {
			i := int(p.Perm>>3) % len(own.Origins)
			own.Origins[i] = badOrigins[int(p.Perm>>11)%len(badOrigins)]
			c.hit("F1_config_value_edited_in_place")
			if err := reconfN(m, own); err == nil {
				return &Violation{Class: "accepted-invalid", Key: fromConfig(own).String(), Detail: fmt.Sprintf("%s: cfg := m.Config(); cfg.Origins[%d] = %q; m.Reconfigure(cfg) returned nil", label, i, own.Origins[i])}
			}
			after2, pan := observeMW(m, suite)
			if pan != "" {
				return &Violation{Class: "panic", Key: "observe", Detail: label + ": " + pan}
			}
			if d := diffObs(before, after2, suite, true); d != "" {
				return &Violation{Class: "state-changed", Key: "rejected-reconfigure", Detail: fmt.Sprintf("%s: after rejected Reconfigure of an in-place edited Config() value: %s", label, d)}
			}
		}
	}
	// the rejected call landing INSIDE the request stream: request, rejected Reconfigure, the
	// same request again, at positions derived from the plan. The two full passes above start
	// from the same point of the suite, so anything the library might (wrongly) carry from
	// request to request is rebuilt identically by both; here the second answer is given in
	// whatever state the stream so far has left behind.
	stride := 8
	if n := len(bad.Origins) + len(bad.Methods) + len(bad.RequestHeaders) + len(bad.ResponseHeaders); n > 64 {
		stride = max(8, len(suite)/3)
	}
	off := int(p.Perm % uint64(stride))
	var v *Violation
	pan = catch(func() {
		srv := newServer(m.Wrap)
		for i, q := range suite {
			r := srv.do(q)
			if i%stride != off {
				continue
			}
			cc := bad.Config()
			if err := m.Reconfigure(&cc); err == nil {
				v = &Violation{Class: "accepted-invalid", Key: bad.String(), Detail: fmt.Sprintf("%s: Reconfigure accepted %s (planted %v) when repeated", label, bad, st.Planted)}
				return
			}
			c.hit("F1_rejected_mid_stream")
			if r2 := srv.do(q); r2 != r {
				v = &Violation{Class: "state-changed", Key: "rejected-reconfigure-mid-stream", Detail: fmt.Sprintf("%s: request %s (no. %d of the stream): %s; after a rejected Reconfigure(%s) right behind it, the same request: %s", label, q, i, r, bad, r2)}
				return
			}
		}
	})
	if pan != "" {
		return &Violation{Class: "panic", Key: "observe", Detail: label + ": " + pan}
	}
	return v
}

func (e histEngine) Shrink(plan any) []any {
	p := plan.(*HistPlan)
	var out []any
	for i := len(p.Steps) - 1; i >= 1; i-- { // keep the creating step
		q := *p
		q.Steps = append(append([]HStep{}, p.Steps[:i]...), p.Steps[i+1:]...)
		out = append(out, &q)
	}
	for i, st := range p.Steps {
		if st.Kind == "double_restore" || st.Kind == "restart" {
			q := *p
			q.Steps = append([]HStep{}, p.Steps...)
			q.Steps[i].Kind = "restore"
			out = append(out, &q)
		}
		if st.FromCurrent {
			q := *p
			q.Steps = append([]HStep{}, p.Steps...)
			q.Steps[i].FromCurrent, q.Steps[i].AddOrigins = false, nil
			out = append(out, &q)
			for j := range st.AddOrigins {
				q := *p
				q.Steps = append([]HStep{}, p.Steps...)
				q.Steps[i].AddOrigins = append(append([]string{}, st.AddOrigins[:j]...), st.AddOrigins[j+1:]...)
				out = append(out, &q)
			}
		}
		if len(st.Planted) > 1 {
			for j := range st.Planted {
				q := *p
				q.Steps = append([]HStep{}, p.Steps...)
				q.Steps[i].Planted = append(append([]Planted{}, st.Planted[:j]...), st.Planted[j+1:]...)
				out = append(out, &q)
			}
		}
		if st.Cfg != 0 {
			q := *p
			q.Steps = append([]HStep{}, p.Steps...)
			q.Steps[i].Cfg = 0
			out = append(out, &q)
		}
	}
	if len(p.Cfgs) > 1 {
		used := map[int]bool{}
		for _, st := range p.Steps {
			used[st.Cfg] = true
		}
		if !used[len(p.Cfgs)-1] {
			q := *p
			q.Cfgs = p.Cfgs[:len(p.Cfgs)-1]
			out = append(out, &q)
		}
	}
	for i, cfg := range p.Cfgs {
		for _, sc := range shrinkCfg(cfg) {
			q := *p
			q.Cfgs = append([]Cfg{}, p.Cfgs...)
			q.Cfgs[i] = sc
			out = append(out, &q)
		}
	}
	return out
}
