package main

// wire.go — the wire world: the same handler chain behind a REAL net/http
// server and a real http.Client, connected by net.Pipe (no socket). It exists
// to check the harness, not the library: every other world hands the
// middleware a hand-built *http.Request and a recording ResponseWriter whose
// semantics (head snapshot at the first WriteHeader/Write or at return, first
// status wins, header writes after the head are lost) were written down from
// net/http's documentation. Here the two are compared on the same exchanges:
// what the recording writer says the client receives must be what a client
// receives. One exchange at a time, so the outcome does not depend on how the
// server's goroutines are scheduled.

import (
	"context"
	"fmt"
	"io"
	"net"
	"net/http"
	"sort"
	"strings"
	"sync"
	"time"
)

type pipeAddr struct{}

func (pipeAddr) Network() string { return "pipe" }
func (pipeAddr) String() string  { return "pipe" }

type pipeListener struct {
	ch   chan net.Conn
	done chan struct{}
	once sync.Once
}

func (l *pipeListener) Accept() (net.Conn, error) {
	select {
	case c := <-l.ch:
		return c, nil
	case <-l.done:
		return nil, net.ErrClosed
	}
}
func (l *pipeListener) Close() error   { l.once.Do(func() { close(l.done) }); return nil }
func (l *pipeListener) Addr() net.Addr { return pipeAddr{} }

type wireWorld struct {
	mu  sync.Mutex
	cur http.Handler
	cl  *http.Client
}

var (
	wireOnce sync.Once
	theWire  *wireWorld
)

func getWire() *wireWorld {
	wireOnce.Do(func() {
		w := &wireWorld{}
		l := &pipeListener{ch: make(chan net.Conn), done: make(chan struct{})}
		srv := &http.Server{Handler: http.HandlerFunc(func(rw http.ResponseWriter, r *http.Request) { w.cur.ServeHTTP(rw, r) })}
		go srv.Serve(l)
		w.cl = &http.Client{
			Transport: &http.Transport{
				DialContext: func(ctx context.Context, network, addr string) (net.Conn, error) {
					c1, c2 := net.Pipe()
					select {
					case l.ch <- c2:
						return c1, nil
					case <-ctx.Done():
						return nil, ctx.Err()
					}
				},
				DisableCompression: true,
				DisableKeepAlives:  true,
			},
			CheckRedirect: func(*http.Request, []*http.Request) error { return http.ErrUseLastResponse },
			Timeout:       20 * time.Second,
		}
		theWire = w
	})
	return theWire
}

type wireResp struct {
	Status int
	Header http.Header
	Body   string
}

// do sends q over the wire to h. ok=false: q cannot travel (or net/http refuses it).
func (w *wireWorld) do(h http.Handler, q Req) (r wireResp, ok bool) {
	w.mu.Lock()
	defer w.mu.Unlock()
	for _, hv := range q.H {
		if len(hv.V) == 0 {
			return r, false // a zero-length value list has no wire form
		}
	}
	req, err := http.NewRequest(q.Method, "http://server.test/resource", nil)
	if err != nil {
		return r, false
	}
	for _, hv := range q.H {
		req.Header[hv.K] = append([]string{}, hv.V...)
	}
	if _, has := req.Header["User-Agent"]; !has {
		req.Header["User-Agent"] = []string{""} // suppresses the default
	}
	if q.Host != "" {
		req.Host = q.Host
	}
	w.cur = h
	resp, err := w.cl.Do(req)
	if err != nil {
		return r, false // invalid header bytes etc.: refused before it reaches the server
	}
	defer resp.Body.Close()
	b, _ := io.ReadAll(resp.Body)
	return wireResp{resp.StatusCode, resp.Header, string(b)}, true
}

// headers net/http itself adds or rewrites
var wireOwned = map[string]bool{"Date": true, "Content-Length": true, "Content-Type": true, "Connection": true, "Transfer-Encoding": true, "Trailer": true}

// compareWire: what the recording writer says the client receives against what
// the client received. Returns "" if they agree.
func compareWire(direct *recWriter, wr wireResp, method string) string {
	status := direct.status
	if status == 0 {
		status = 200
	}
	if status != wr.Status {
		return fmt.Sprintf("status %d over the wire, %d by the recording writer", wr.Status, status)
	}
	head := direct.h
	if direct.snapped && direct.snapWH != nil {
		head = direct.snapWH
	}
	keys := map[string]bool{}
	for k, v := range head {
		if len(v) > 0 {
			keys[k] = true
		}
	}
	for k := range wr.Header {
		keys[k] = true
	}
	var ks []string
	for k := range keys {
		ks = append(ks, k)
	}
	sort.Strings(ks)
	for _, k := range ks {
		if wireOwned[k] {
			continue
		}
		a, b := head[k], wr.Header[k]
		if len(a) != len(b) {
			return fmt.Sprintf("header %s: %q by the recording writer, %q over the wire", k, a, b)
		}
		for i := range a {
			if strings.TrimSpace(a[i]) != b[i] { // the wire trims optional whitespace around a field value
				return fmt.Sprintf("header %s: %q by the recording writer, %q over the wire", k, a, b)
			}
		}
	}
	if method != "HEAD" && status != 204 && status != 304 && status >= 200 {
		if string(direct.body) != wr.Body {
			return fmt.Sprintf("body %q by the recording writer, %q over the wire", direct.body, wr.Body)
		}
	}
	return ""
}
