package main

// cfg.go: generator of accepted configurations ("cfggen", DESIGN §3). The
// result is valid *by construction* from the Config documentation; a
// constructed configuration that the real code rejects is counted
// (generator_rejected) and raises nothing here.

import (
	"fmt"
	"io"
	"log"
	"net/netip"
	"reflect"
	"strings"

	"github.com/jub0bs/cors"
)

// Cfg mirrors cors.Config as plain data (cors.Config carries a [0]func field).
type Cfg struct {
	Origins         []string `json:"origins"`
	Credentialed    bool     `json:"cred,omitempty"`
	Methods         []string `json:"methods,omitempty"`
	RequestHeaders  []string `json:"req_hdrs,omitempty"`
	MaxAge          int      `json:"max_age,omitempty"`
	ResponseHeaders []string `json:"res_hdrs,omitempty"`
	Status          int      `json:"status,omitempty"`
	PNA             bool     `json:"pna,omitempty"`
	PNANoCors       bool     `json:"pna_nocors,omitempty"`
	TolInsecure     bool     `json:"tol_insecure,omitempty"`
	TolPSL          bool     `json:"tol_psl,omitempty"`
	// ExtraBools names exported bool fields of cors.Config / cors.ExtraConfig
	// that this harness does not know (a changed tree may have added options)
	// and that are to be switched on. Empty on the pinned tree. Only the
	// differential checks (C06, C07, C08, C12), whose oracle is the code's own
	// earlier self, ever switch unknown options on.
	ExtraBools []string `json:"extra_bools,omitempty"`
	// Mem: how the cors.Config built from this value is laid out in memory (0: nil
	// for empty lists, exact capacity; 1: empty non-nil slices; 2: spare capacity
	// behind every list; 3: all four lists are adjacent sub-slices of ONE array,
	// each with capacity reaching into the next - what `all[:2]`, `all[2:5]` give).
	// Same configuration in every layout.
	Mem int `json:"mem,omitempty"`
}

// editInPlace is how a careful caller reuses a list it owns: in place where the
// new contents fit into the old LENGTH (the region that is certainly its own -
// the capacity behind it may belong to a neighbouring list, see layout 3),
// fresh memory otherwise.
func editInPlace(dst, src []string) []string { return append(dst[:0:len(dst)], src...) }

const spareSentinel = "SPARE-CAPACITY-OF-THE-CALLER"

// layOut copies the four lists into fresh memory in layout mem.
func layOut(mem int, lists [4][]string) [4][]string {
	var out [4][]string
	switch mem % 4 {
	case 1:
		for i, l := range lists {
			out[i] = append([]string{}, l...)
		}
	case 2:
		for i, l := range lists {
			b := make([]string, len(l)+3)
			copy(b, l)
			for j := len(l); j < len(b); j++ {
				b[j] = spareSentinel
			}
			out[i] = b[:len(l)]
		}
	case 3:
		n := 2
		for _, l := range lists {
			n += len(l)
		}
		arr := make([]string, n)
		at := 0
		for i, l := range lists {
			copy(arr[at:], l)
			out[i] = arr[at : at+len(l)] // capacity runs on into the lists behind
			at += len(l)
		}
		arr[n-2], arr[n-1] = spareSentinel, spareSentinel
	default:
		for i, l := range lists {
			out[i] = cloneStrs(l)
		}
	}
	return out
}

var knownCfgFields = map[string]bool{"Origins": true, "Credentialed": true, "Methods": true, "RequestHeaders": true, "MaxAgeInSeconds": true,
	"ResponseHeaders": true, "ExtraConfig": true, "PreflightSuccessStatus": true, "PrivateNetworkAccess": true, "PrivateNetworkAccessInNoCORSModeOnly": true,
	"DangerouslyTolerateInsecureOrigins": true, "DangerouslyTolerateSubdomainsOfPublicSuffixes": true}

// unknownBoolFields lists the exported bool fields of cors.Config and
// cors.ExtraConfig that the harness has no name for, in declaration order.
func unknownBoolFields() []string {
	var out []string
	for _, t := range []reflect.Type{reflect.TypeOf(cors.Config{}), reflect.TypeOf(cors.ExtraConfig{})} {
		for i := 0; i < t.NumField(); i++ {
			f := t.Field(i)
			if f.IsExported() && f.Type.Kind() == reflect.Bool && !knownCfgFields[f.Name] {
				out = append(out, f.Name)
			}
		}
	}
	return out
}

func setExtraBools(c *cors.Config, names []string) {
	for _, n := range names {
		for _, v := range []reflect.Value{reflect.ValueOf(c).Elem(), reflect.ValueOf(&c.ExtraConfig).Elem()} {
			if f := v.FieldByName(n); f.IsValid() && f.Kind() == reflect.Bool && f.CanSet() {
				f.SetBool(true)
			}
		}
	}
}

func getExtraBools(c *cors.Config) []string {
	var out []string
	for _, n := range unknownBoolFields() {
		for _, v := range []reflect.Value{reflect.ValueOf(c).Elem(), reflect.ValueOf(&c.ExtraConfig).Elem()} {
			if f := v.FieldByName(n); f.IsValid() && f.Kind() == reflect.Bool && f.Bool() {
				out = append(out, n)
				break
			}
		}
	}
	return out
}

// genCfgX is genCfg plus, on a tree that has options unknown to the harness,
// a random subset of them switched on (kept only if the result is accepted).
// perturbCfg turns a valid configuration into a form the DOCUMENTATION prohibits but a
// more lenient library might accept: padded or comma-joined list elements, a padded or
// extra asterisk, letter case, a trailing slash or an explicit default port on an origin,
// blank elements, numbers just out of range. On the pinned tree every result is rejected
// and dropped. On a tree that accepts one, what the configuration MEANS is nobody's
// documented business - but the library must still agree with itself on it: same verdict
// in both debug modes (C02), same behaviour after a Config() round trip (C06), and so on.
func perturbCfg(r *R, c Cfg) Cfg {
	d := c.clone()
	lists := []*[]string{&d.Methods, &d.RequestHeaders, &d.ResponseHeaders}
	pad := func(s string) string {
		return pick(r, []string{" " + s, s + " ", "\t" + s, " " + s + " "})
	}
	switch r.Intn(9) {
	case 0, 1: // a padded element
		l := lists[r.Intn(3)]
		if len(*l) > 0 {
			i := r.Intn(len(*l))
			(*l)[i] = pad((*l)[i])
		} else {
			*l = []string{pad("X-Padded")}
		}
	case 2: // a padded asterisk next to (or instead of) the rest
		l := lists[r.Intn(3)]
		found := false
		for i, x := range *l {
			if x == "*" {
				(*l)[i], found = pad("*"), true
			}
		}
		if !found && !(l == &d.ResponseHeaders && d.Credentialed) {
			*l = insertAt(*l, r.Intn(4), pad("*"))
		}
	case 3: // two elements in one string
		l := lists[r.Intn(3)]
		if len(*l) >= 2 {
			joined := (*l)[0] + pick(r, []string{",", ", "}) + (*l)[1]
			*l = append([]string{joined}, (*l)[2:]...)
		} else {
			*l = append(*l, "X-One, X-Two")
		}
	case 4, 5: // an origin in a sloppier spelling
		if len(d.Origins) > 0 && d.Origins[0] != "*" {
			i := r.Intn(len(d.Origins))
			o := d.Origins[i]
			switch r.Intn(6) {
			case 0:
				o = pad(o)
			case 1:
				o += "/"
			case 2:
				o = strings.ToUpper(o[:1]) + o[1:]
			case 3:
				if pp, ok := splitPattern(o); ok && pp.Port == "" && pp.Scheme == "https" {
					o += ":443"
				} else if ok && pp.Port == "" && pp.Scheme == "http" {
					o += ":80"
				}
			case 4:
				if j := strings.Index(o, "://"); j > 0 && len(o) > j+4 {
					o = o[:j+3] + strings.ToUpper(o[j+3:j+4]) + o[j+4:]
				}
			case 5:
				o = strings.Replace(o, "://", "://.", 1) // a leading dot meaning "subdomains"
			}
			d.Origins[i] = o
		}
	case 6: // blank elements
		switch r.Intn(3) {
		case 0:
			d.Origins = insertAt(d.Origins, r.Intn(4), pick(r, []string{"", " "}))
		case 1:
			d.Origins = []string{pick(r, []string{"", " ", "\t"})}
		default:
			l := lists[r.Intn(3)]
			*l = insertAt(*l, r.Intn(4), pick(r, []string{"", " "}))
		}
	case 7: // numbers just out of range (a clamping library accepts them)
		if r.P(0.5) {
			d.MaxAge = pick(r, []int{86401, 100000, -2, 31536000})
		} else {
			d.Status = pick(r, []int{199, 300, 100, 600})
		}
	case 8: // an origin list given as one comma-separated string
		if len(d.Origins) >= 2 && d.Origins[0] != "*" {
			d.Origins = []string{strings.Join(d.Origins, pick(r, []string{",", ", "}))}
		}
	}
	return d
}

// genCfgLenient: a perturbed configuration, if the tree under test accepts one.
func genCfgLenient(r *R, c Cfg) (Cfg, bool) {
	d := perturbCfg(r, c)
	if m, err, pan := newMW(d); m != nil && err == nil && pan == nil {
		if m0, err0, _ := newMW(c); m0 != nil && err0 == nil && d.String() != c.String() {
			return d, true
		}
	}
	return c, false
}

func genCfgX(r *R) Cfg {
	c := genCfg(r)
	if r.P(0.08) {
		if d, ok := genCfgLenient(r, c); ok {
			return d
		}
	}
	unk := unknownBoolFields()
	if len(unk) == 0 {
		return c
	}
	d := c.clone()
	d.ExtraBools = subset(r, unk, 0.35)
	if len(d.ExtraBools) > 0 {
		if _, err, pan := newMW(d); err == nil && pan == nil {
			return d
		}
	}
	return c
}

func cloneStrs(s []string) []string {
	if s == nil {
		return nil
	}
	return append([]string{}, s...)
}

// Config builds a fresh cors.Config that shares no memory with c.
func (c Cfg) Config() cors.Config {
	out := c.config()
	setExtraBools(&out, c.ExtraBools)
	return out
}

func (c Cfg) config() cors.Config {
	l := layOut(c.Mem, [4][]string{c.Origins, c.Methods, c.RequestHeaders, c.ResponseHeaders})
	return cors.Config{
		Origins:         l[0],
		Credentialed:    c.Credentialed,
		Methods:         l[1],
		RequestHeaders:  l[2],
		MaxAgeInSeconds: c.MaxAge,
		ResponseHeaders: l[3],
		ExtraConfig: cors.ExtraConfig{
			PreflightSuccessStatus:                        c.Status,
			PrivateNetworkAccess:                          c.PNA,
			PrivateNetworkAccessInNoCORSModeOnly:          c.PNANoCors,
			DangerouslyTolerateInsecureOrigins:            c.TolInsecure,
			DangerouslyTolerateSubdomainsOfPublicSuffixes: c.TolPSL,
		},
	}
}

func fromConfig(c *cors.Config) *Cfg {
	if c == nil {
		return nil
	}
	return &Cfg{
		Origins: cloneStrs(c.Origins), Credentialed: c.Credentialed, Methods: cloneStrs(c.Methods),
		RequestHeaders: cloneStrs(c.RequestHeaders), MaxAge: c.MaxAgeInSeconds, ResponseHeaders: cloneStrs(c.ResponseHeaders),
		Status: c.PreflightSuccessStatus, PNA: c.PrivateNetworkAccess, PNANoCors: c.PrivateNetworkAccessInNoCORSModeOnly,
		TolInsecure: c.DangerouslyTolerateInsecureOrigins, TolPSL: c.DangerouslyTolerateSubdomainsOfPublicSuffixes,
		ExtraBools: getExtraBools(c),
	}
}

func (c Cfg) clone() Cfg {
	c.Origins, c.Methods, c.RequestHeaders, c.ResponseHeaders = cloneStrs(c.Origins), cloneStrs(c.Methods), cloneStrs(c.RequestHeaders), cloneStrs(c.ResponseHeaders)
	c.ExtraBools = cloneStrs(c.ExtraBools)
	return c
}

func (c Cfg) String() string { return string(planJSON(c)) }

// ---- vocabulary (built to collide: shared byte suffixes that are not label
// boundaries, trailing dots, IP literals, Punycode)

var (
	vocabDomains = []string{"example.com", "foo.example.com", "barexample.com", "ample.com", "example.com.",
		"a.b.example.com", "xn--xample-9ua.com", "example.org", "example.co.uk", "internal", "localhost",
		"a.b.c.d.e.example.com", "m", "x--y.example.com", "1example.com", longHost253}
	vocabIPs      = []string{"127.0.0.1", "10.0.0.1", "[::1]", "[2001:db8::1]", "127.0.0.2"}
	vocabWildBase = []string{"example.com", "foo.example.com", "example.com.", "example.org", "ample.com", "xn--xample-9ua.com"}
	vocabPSL      = []string{"com", "github.io", "co.uk", "localhost"} // need TolPSL
	vocabSchemes  = []string{"https", "https", "https", "https", "http", "http", "connector", "a+b-c.d", "wss", "ws", "ftp", "h2", scheme64, scheme64[:63]}
	vocabPorts    = []string{"", "", "", "", ":1", ":8080", ":65535", ":*", ":*", ":8443", ":443", ":80", ":21"}
	vocabMethods  = []string{"GET", "POST", "HEAD", "PUT", "put", "DELETE", "delete", "PATCH", "patch", "OPTIONS", "PURGE", "QUERY", "Foo"}
	vocabReqHdrs  = []string{"Authorization", "authorization", "AUTHORIZATION", "Content-Type", "X-Foo", "x-bar", "X-Baz-Qux", "Accept", "Cache-Control", "x-a", "X-Requested-With", "X-Foo-Bar", "x-fo"}
	vocabResHdrs  = []string{"X-Response-Time", "x-foo", "Content-Length", "ETag", "Link", "X-Bar", "Cache-Control"}
	vocabMaxAge   = []int{0, 0, -1, 1, 5, 600, 86400}
	vocabStatus   = []int{0, 0, 200, 204, 299, 201}
)

// hosts that are byte suffixes of one another (deep nesting in a suffix tree)
var suffixFamilies = [][]string{
	{"[::1]", "[1::1]", "[21::1]", "[321::1]", "[4321::1]", "[f:4321::1]"},
	{"[::]", "[1::]", "[a1::]", "[::a1:0:0]"},
	{"[2001:db8::1]", "[db8::1]", "[b8::1]", "[8::1]", "[::1]", "[2001:db8::a:1]"},
	{"127.0.0.1", "27.0.0.1", "7.0.0.1", "10.0.0.1", "210.0.0.1"},
	{"example.com", "xample.com", "ample.com", "mple.com", "ple.com", "le.com", "e.com", "an.example.com", "n.example.com"},
	{"a.b.c.d.e.example.com", "b.c.d.e.example.com", "c.d.e.example.com", "d.e.example.com", "e.example.com", "xe.example.com"},
	{"localhost", "ocalhost", "calhost", "host", "st", "t"},
	// across host KINDS: a domain that is a byte suffix of an IPv6 literal's text (hex letters
	// only), so that the literal hangs below a domain in a suffix tree
	{"[::cafe]", "cafe", "afe", "fe", "[1::cafe]"},
	{"[2001:db8::dead:beef]", "beef", "ef", "f", "[db8::dead:beef]", "[::beef]"},
}

// a scheme of exactly 64 bytes (the documented maximum)
var scheme64 = "s" + strings.Repeat("c", 61) + "-z"

// a 253-byte domain (the documented maximum): 3 labels of 63 bytes + one of 61
var longHost253 = strings.Repeat("a", 63) + "." + strings.Repeat("b", 63) + "." + strings.Repeat("c", 63) + "." + strings.Repeat("d", 57) + ".com"

func isLoopbackish(host string) bool {
	return host == "localhost" || host == "[::1]" || strings.HasPrefix(host, "127.")
}
func isIPHost(host string) bool {
	return strings.HasPrefix(host, "[") || (host != "" && host[0] >= '0' && host[0] <= '9')
}

const lowerAlnum = "abcdefghijklmnopqrstuvwxyz0123456789"

// randLabel draws a DNS label of letters and digits (no hyphens: positions 3-4
// and the edges are grey zones), starting with a letter.
func randLabel(r *R, maxLen int) string {
	n := r.Range(1, maxLen)
	b := make([]byte, n)
	b[0] = lowerAlnum[r.Intn(26)]
	for i := 1; i < n; i++ {
		b[i] = lowerAlnum[r.Intn(len(lowerAlnum))]
	}
	return string(b)
}

// randDomain draws a domain of 2..4 random labels (never a public suffix by itself).
func randDomain(r *R) string {
	n := r.Range(2, 4)
	parts := make([]string, n)
	for i := range parts {
		parts[i] = randLabel(r, pick(r, []int{1, 3, 8, 8, 20, 63}))
	}
	parts[n-1] = pick(r, []string{"test", "com", "org", "example", "dev"})
	return strings.Join(parts, ".")
}

// randToken draws a header-name/method token.
func randToken(r *R, prefix string, maxLen int) string {
	const chars = "abcdefghijklmnopqrstuvwxyzABCDEFGHIJKLMNOPQRSTUVWXYZ0123456789-_"
	n := r.Range(1, maxLen)
	b := make([]byte, n)
	for i := range b {
		b[i] = chars[r.Intn(len(chars))]
	}
	return prefix + string(b)
}

func randPort(r *R, scheme string) string {
	for {
		p := pick(r, []int{r.Range(1, 65535), r.Range(1, 1024), r.Range(8000, 9000), 65535, 1, 79, 80, 81, 442, 443, 444, 21, 22})
		if scheme == "http" && p == 80 || scheme == "https" && p == 443 {
			continue
		}
		return ":" + fmt.Sprint(p)
	}
}

// genPattern draws one origin pattern and reports whether it needs the
// insecure-origins and public-suffix tolerations. Half of the draws come from
// the collision vocabulary, the rest is random (labels, ports).
func genPattern(r *R) (pat string, insecure, psl bool) { return genPatternT(r, theme{}) }

// theme: swarm-style bias of one configuration's origin list. The zero theme
// is the ordinary mix; a themed configuration draws all its patterns from one
// narrow corner, so that conjunctions the ordinary mix makes rare (three IPv6
// literals in one tree, one host under seven ports and three schemes, a base
// domain with its subdomain patterns at several depths) are common there.
type theme struct {
	kind int    // 0 none, 1 IP literals only, 2 one base domain, 3 one host many ports, 4 one host many schemes
	base string // themes 2..4
}

func genTheme(r *R) theme {
	if !r.P(0.15) {
		return theme{}
	}
	t := theme{kind: r.Range(1, 4), base: pick(r, vocabWildBase)}
	if r.P(0.4) {
		t.base = randDomain(r)
	}
	return t
}

// randIPv6 draws an IPv6 literal in the canonical (RFC 5952) text form, with
// long zero runs likely; never an IPv4-mapped one (prohibited).
func randIPv6(r *R) string {
	for {
		var b [16]byte
		for i := 0; i < 8; i++ {
			if r.P(0.35) {
				v := pick(r, []int{1, 1, 0xa, 0x21, 0x321, 0x4321, 0xdb8, 0x2001, 0xfe80, 0xffff, r.Intn(65536)})
				b[2*i], b[2*i+1] = byte(v>>8), byte(v)
			}
		}
		a := netip.AddrFrom16(b)
		if a.Is4In6() || a.IsUnspecified() {
			continue
		}
		return "[" + a.String() + "]"
	}
}

func genPatternT(r *R, th theme) (pat string, insecure, psl bool) {
	scheme := pick(r, vocabSchemes)
	var host string
	wild := false
	x := r.Intn(14)
	switch th.kind {
	case 1:
		x = 100
		switch y := r.Intn(10); {
		case y < 3:
			host = pick(r, vocabIPs)
		case y < 7:
			host = randIPv6(r)
		default:
			host = fmt.Sprintf("%d.%d.%d.%d", r.Range(1, 223), r.Intn(256), r.Intn(256), r.Range(1, 254))
		}
	case 2:
		x = 100
		host = th.base
		switch y := r.Intn(10); {
		case y < 2:
		case y < 4:
			wild = true
		case y < 6:
			host = randLabel(r, 3) + "." + host
		case y < 7:
			host, wild = randLabel(r, 3)+"."+host, true
		case y < 8:
			host = pick(r, []string{"a", "b", "a.b", "b.a", "x"}) + "." + host
		case y < 9:
			host = strings.TrimSuffix(host, ".") + "."
		default:
			host = randLabel(r, 2) + host // same byte suffix, another domain
		}
	case 3, 4:
		x = 100
		host = th.base
		if r.P(0.2) {
			wild = true
		}
	}
	switch {
	case x == 100:
	case x < 5:
		host = pick(r, vocabDomains)
	case x < 7:
		host = pick(r, vocabIPs)
	case x < 9:
		host, wild = pick(r, vocabWildBase), true
	case x < 10:
		host, wild, psl = pick(r, vocabPSL), true, true
	case x < 12:
		host = randDomain(r)
	case x < 13:
		host, wild = randDomain(r), true
	default:
		host = fmt.Sprintf("%d.%d.%d.%d", r.Range(1, 223), r.Intn(256), r.Intn(256), r.Range(1, 254))
	}
	if isIPHost(host) && scheme == "https" {
		scheme = "http" // https with an IP host is rejected (undocumented grey zone); stay clear of it
	}
	port := pick(r, vocabPorts)
	if r.P(0.25) || th.kind == 3 && r.P(0.6) {
		port = randPort(r, scheme)
	}
	if scheme == "http" && port == ":80" || scheme == "https" && port == ":443" {
		port = ""
	}
	insecure = scheme != "https" && !isLoopbackish(host)
	if wild {
		host = "*." + host
	}
	return scheme + "://" + host + port, insecure, psl
}

// genCfg draws an accepted configuration.
func genCfg(r *R) Cfg {
	var c Cfg
	if r.P(0.025) {
		// the MINIMAL configurations: an origin list and defaults everywhere else (what a
		// quick-start copies from the documentation; what a "common case" shortcut keys on)
		switch r.Intn(5) {
		case 0, 1:
			return Cfg{Origins: []string{"*"}}
		case 2:
			return Cfg{Origins: []string{"https://example.com", "*"}}
		case 3:
			return Cfg{Origins: []string{"*"}, Methods: []string{pick(r, []string{"GET", "POST", "HEAD"})}}
		default:
			return Cfg{Origins: []string{"https://example.com"}}
		}
	}
	c.Credentialed = r.P(0.4)
	switch x := r.Intn(20); {
	case x < 5:
		c.PNA = true
	case x < 8:
		c.PNANoCors = true
	}
	restricted := c.Credentialed || c.PNA || c.PNANoCors
	if !restricted && r.P(0.25) {
		c.Origins = []string{"*"}
		if r.P(0.3) { // "*" mixed with discrete values
			p, _, psl := genPattern(r)
			c.TolPSL = c.TolPSL || psl
			c.Origins = append(c.Origins, p)
			if r.P(0.5) {
				c.Origins[0], c.Origins[1] = c.Origins[1], c.Origins[0]
			}
		}
	} else {
		n := r.Range(1, 5)
		if r.P(0.12) {
			n = r.Range(6, 18) // long lists (size-dependent code paths)
		}
		th := genTheme(r)
		if th.kind != 0 {
			n += r.Range(2, 5)
		}
		for i := 0; i < n; i++ {
			p, insecure, psl := genPatternT(r, th)
			if insecure && restricted {
				if r.P(0.5) {
					c.TolInsecure = true
				} else {
					i--
					continue
				}
			}
			c.TolPSL = c.TolPSL || psl
			c.Origins = append(c.Origins, p)
			if r.P(0.1) {
				c.Origins = append(c.Origins, p) // duplicate
			}
		}
	}
	if len(c.Origins) > 0 && c.Origins[0] != "*" && r.P(0.07) {
		// a suffix family: hosts that are byte suffixes of one another, so that the
		// origin tree nests three and more levels deep under one branch
		fam := pick(r, suffixFamilies)
		scheme := "https"
		if isIPHost(fam[0]) {
			scheme = "http"
		} else if r.P(0.2) {
			scheme = "http"
		}
		for _, h := range subset(r, fam, pick(r, []float64{0.5, 0.8, 1})) {
			port := pick(r, []string{"", "", ":8080", ":*", ":9090"})
			if !isIPHost(h) && r.P(0.2) {
				h = "*." + h
			}
			if scheme != "https" && !isLoopbackish(h) && restricted {
				c.TolInsecure = true
			}
			c.Origins = insertAt(c.Origins, r.Intn(8), scheme+"://"+h+port)
		}
	}
	if r.P(0.1) {
		c.TolInsecure = true
	}
	if r.P(0.05) {
		c.TolPSL = true
	}
	switch x := r.Intn(10); {
	case x < 2:
	case x < 4:
		c.Methods = []string{"*"}
		if r.P(0.3) {
			c.Methods = shuffled(r, append(c.Methods, pick(r, vocabMethods)))
		}
	default:
		c.Methods = subset(r, vocabMethods, pick(r, []float64{0.3, 0.3, 0.3, 0.9}))
		for r.P(0.2) {
			c.Methods = append(c.Methods, randToken(r, pick(r, []string{"M", "m", "X", "q"}), 9))
		}
		c.Methods = shuffled(r, c.Methods)
	}
	switch x := r.Intn(10); {
	case x < 2:
	case x < 5:
		c.RequestHeaders = []string{"*"}
		if r.P(0.5) {
			c.RequestHeaders = shuffled(r, append(c.RequestHeaders, pick(r, vocabReqHdrs[:3])))
		}
		if r.P(0.2) {
			c.RequestHeaders = shuffled(r, append(c.RequestHeaders, pick(r, vocabReqHdrs)))
		}
	default:
		c.RequestHeaders = subset(r, vocabReqHdrs, pick(r, []float64{0.3, 0.3, 0.3, 0.9}))
		for r.P(pick(r, []float64{0.25, 0.25, 0.8})) {
			c.RequestHeaders = append(c.RequestHeaders, randToken(r, pick(r, []string{"X-", "x-", "My", "z"}), pick(r, []int{1, 4, 12, 30, 60})))
		}
		if r.P(0.06) {
			// a name whose length sits on a type-width boundary (uint8, int8) or just beyond
			n := pick(r, []int{126, 127, 128, 253, 254, 255, 256, 257, 300, 1000})
			c.RequestHeaders = append(c.RequestHeaders, "x-"+strings.Repeat(pick(r, []string{"l", "a", "z"}), n-2))
		}
		c.RequestHeaders = shuffled(r, c.RequestHeaders)
	}
	switch x := r.Intn(10); {
	case x < 4:
	case x < 6 && !c.Credentialed:
		c.ResponseHeaders = []string{"*"}
		if r.P(0.3) {
			c.ResponseHeaders = shuffled(r, append(c.ResponseHeaders, pick(r, vocabResHdrs)))
		}
	default:
		c.ResponseHeaders = subset(r, vocabResHdrs, pick(r, []float64{0.35, 0.35, 0.9}))
		for r.P(pick(r, []float64{0.2, 0.2, 0.8})) {
			c.ResponseHeaders = append(c.ResponseHeaders, randToken(r, pick(r, []string{"X-", "x-"}), 20))
		}
		c.ResponseHeaders = shuffled(r, c.ResponseHeaders)
	}
	// once in a while one list is HUGE (size-dependent code paths: splitting of long
	// header lines, caps, pooled buffers, big trees)
	if r.P(0.025) {
		switch r.Intn(4) {
		case 0:
			if !(len(c.ResponseHeaders) == 1 && c.ResponseHeaders[0] == "*") {
				for i, n := 0, r.Range(220, 420); i < n; i++ {
					c.ResponseHeaders = append(c.ResponseHeaders, fmt.Sprintf("X-Exposed-%04d-%s", i, randLabel(r, 6)))
				}
			}
		case 1:
			star := false
			for _, h := range c.RequestHeaders {
				star = star || h == "*"
			}
			if !star {
				for i, n := 0, r.Range(120, 300); i < n; i++ {
					c.RequestHeaders = append(c.RequestHeaders, fmt.Sprintf("x-req-%04d-%s", i, randLabel(r, 6)))
				}
			}
		case 2:
			if len(c.Origins) > 0 && c.Origins[0] != "*" && !(c.Credentialed || c.PNA || c.PNANoCors) {
				for i, n := 0, r.Range(100, 300); i < n; i++ {
					c.Origins = append(c.Origins, "https://"+randDomain(r))
				}
			}
		default:
			if !(len(c.Methods) > 0 && c.Methods[0] == "*") {
				for i, n := 0, r.Range(40, 90); i < n; i++ {
					c.Methods = append(c.Methods, fmt.Sprintf("M%d%s", i, randLabel(r, 4)))
				}
			}
		}
	}
	// list LENGTHS on type-width boundaries: 255..257 now and then, 65535..65537 origins very rarely (they cost ~0.1 s)
	if len(c.Origins) > 0 && c.Origins[0] != "*" {
		star := false
		for _, o := range c.Origins {
			star = star || o == "*"
		}
		if !star && r.P(0.012) {
			n := pick(r, []int{255, 256, 257})
			if allowHugeOriginLists && r.P(0.03) {
				n = pick(r, []int{65536, 65536, 65535, 65537})
			}
			for i := len(c.Origins); i < n; i++ {
				c.Origins = append(c.Origins, fmt.Sprintf("https://w%05d.filler.test", i))
			}
		}
	}
	if len(c.Methods) > 0 && c.Methods[0] != "*" && r.P(0.006) {
		for i, n := len(c.Methods), pick(r, []int{255, 256, 257}); i < n; i++ {
			c.Methods = append(c.Methods, fmt.Sprintf("W%03d", i))
		}
	}
	c.MaxAge = pick(r, vocabMaxAge)
	if r.P(0.35) {
		c.MaxAge = pick(r, []int{r.Range(1, 86400), r.Range(1, 100), 7200, 86399, 2, 4, 6})
	}
	c.Status = pick(r, vocabStatus)
	if r.P(0.35) {
		c.Status = r.Range(200, 299)
	}
	if r.P(0.2) {
		c.Mem = r.Range(1, 3)
	}
	// values mined from the tree under test (dict.go): kept only if the result is
	// still accepted, so that the dictionary costs no runs
	if d, changed := withDict(r, c); changed {
		if m, err, pan := newMW(d); m != nil && err == nil && pan == nil {
			return d
		}
	}
	return c
}

// allowHugeOriginLists: set by the engines whose single run is cheap enough (C10, C02) to
// afford a 65536-pattern configuration now and then (~0.1 s each).
var allowHugeOriginLists bool

// padOriginsTo pads the origin list of every configuration that has no "*" to n
// patterns with the same filler origins (so that the configurations stay
// comparable): size thresholds of the code under test apply to all of them.
func padOriginsTo(cfgs []Cfg, n int) {
	for ci := range cfgs {
		star := len(cfgs[ci].Origins) == 0
		for _, o := range cfgs[ci].Origins {
			star = star || o == "*"
		}
		if star {
			continue
		}
		for i := len(cfgs[ci].Origins); i < n; i++ {
			cfgs[ci].Origins = append(cfgs[ci].Origins, fmt.Sprintf("https://pad-%04d.filler.test", i))
		}
	}
}

// withDict returns c with a few of its values replaced or extended by literals
// of the tree under test: a host, port or scheme of one pattern, a method, a
// request or response header name, max-age, status, a list padded to a mined
// size.
func withDict(r *R, c Cfg) (Cfg, bool) {
	if len(dict.any.all) == 0 || !r.P(0.2) && !(len(dict.any.novel)+len(dict.ports.novel) > 0 && r.P(0.15)) {
		return c, false // (a tree with literals the pinned tree does not have gets more of this)
	}
	d := c.clone()
	changed := false
	restricted := c.Credentialed || c.PNA || c.PNANoCors
	if len(d.Origins) > 0 && d.Origins[0] != "*" {
		i := r.Intn(len(d.Origins))
		if pp, ok := splitPattern(d.Origins[i]); ok && d.Origins[i] != "*" {
			host, port, scheme := pp.Host, "", pp.Scheme
			if pp.Wild {
				host = "*." + host
			}
			if pp.Port != "" {
				port = ":" + pp.Port
			}
			if h, ok := dict.hosts.pick(r, 0.3); ok {
				host = h
				if r.P(0.2) && !isIPHost(h) {
					host = "*." + h
				}
			}
			if n, ok := dict.ports.pick(r, 0.4); ok {
				port = fmt.Sprintf(":%d", n)
			}
			if sch, ok := dict.schemes.pick(r, 0.15); ok {
				scheme = sch
			}
			if !(scheme == "https" && port == ":443" || scheme == "http" && port == ":80") {
				np := scheme + "://" + host + port
				if np != d.Origins[i] {
					if scheme != "https" && restricted && !isLoopbackish(strings.TrimPrefix(host, "*.")) {
						d.TolInsecure = true
					}
					if r.P(0.5) {
						d.Origins[i] = np
					} else {
						d.Origins = insertAt(d.Origins, r.Intn(8), np)
					}
					changed = true
				}
			}
		}
		if len(dict.schemes.novel)+len(dict.hosts.novel)+len(dict.ports.novel) > 0 && r.P(0.5) {
			// compose an origin from what is NEW in the tree under test: scheme x host x port
			scheme := pick(r, []string{"https", "http"})
			if len(dict.schemes.novel) > 0 && r.P(0.7) {
				scheme = pick(r, dict.schemes.novel)
			}
			host := pick(r, vocabDomains[:12])
			if h, ok := dict.hosts.pick(r, 0.7); ok {
				host = h
			}
			if r.P(0.2) && !isIPHost(host) {
				host = pick(r, []string{"*.", "sub."}) + host
			}
			port := ""
			if n, ok := dict.ports.pick(r, 0.4); ok {
				port = fmt.Sprintf(":%d", n)
			}
			if !(scheme == "https" && port == ":443" || scheme == "http" && port == ":80") {
				if scheme != "https" && restricted && !isLoopbackish(strings.TrimPrefix(strings.TrimPrefix(host, "*."), "sub.")) {
					d.TolInsecure = true
				}
				d.Origins = insertAt(d.Origins, r.Intn(8), scheme+"://"+host+port)
				changed = true
			}
		}
		if o, ok := dict.origins.pick(r, 0.1); ok && len(o) > 3 {
			d.Origins = insertAt(d.Origins, r.Intn(8), o)
			changed = true
		}
		if n, ok := dict.sizes.pick(r, 0.1); ok && (n <= 80 || r.P(0.25)) && !restricted {
			for len(d.Origins) < n {
				d.Origins = append(d.Origins, "https://"+randDomain(r))
				changed = true
			}
		}
	}
	hasStar := func(l []string) bool {
		for _, x := range l {
			if x == "*" {
				return true
			}
		}
		return false
	}
	if t, ok := dict.tokens.pick(r, 0.25); ok && !(len(d.Methods) == 1 && d.Methods[0] == "*") {
		d.Methods = insertAt(d.Methods, r.Intn(8), t)
		changed = true
	}
	if t, ok := dict.tokens.pick(r, 0.3); ok {
		d.RequestHeaders = insertAt(d.RequestHeaders, r.Intn(8), t)
		changed = true
	}
	if t, ok := dict.tokens.pick(r, 0.25); ok && !hasStar(d.ResponseHeaders) {
		d.ResponseHeaders = insertAt(d.ResponseHeaders, r.Intn(8), t)
		changed = true
	}
	if n, ok := dict.sizes.pick(r, 0.1); ok && !hasStar(d.RequestHeaders) {
		for i := 0; len(d.RequestHeaders) < n; i++ {
			d.RequestHeaders = append(d.RequestHeaders, fmt.Sprintf("x-pad-%03d", i))
			changed = true
		}
	}
	if n, ok := dict.sizes.pick(r, 0.1); ok && !hasStar(d.ResponseHeaders) && len(d.ResponseHeaders) > 0 {
		for i := 0; len(d.ResponseHeaders) < n; i++ {
			d.ResponseHeaders = append(d.ResponseHeaders, fmt.Sprintf("X-Pad-%03d", i))
			changed = true
		}
	}
	if n, ok := dict.bytes.pick(r, 0.15); ok {
		// a mined byte length: one header list is padded until its joined form is that long
		l, name := &d.ResponseHeaders, "X-Pad-%04d"
		if r.P(0.35) {
			l, name = &d.RequestHeaders, "x-pad-%04d"
		}
		if !hasStar(*l) {
			size := 0
			for _, h := range *l {
				size += len(h) + 1
			}
			for i := 0; size <= n+1; i++ {
				h := fmt.Sprintf(name, i)
				*l = append(*l, h)
				size += len(h) + 1
				changed = true
			}
		}
	}
	if n, ok := dict.maxAge.pick(r, 0.25); ok {
		d.MaxAge, changed = n, true
	}
	if n, ok := dict.status.pick(r, 0.25); ok {
		d.Status, changed = n, true
	}
	return d, changed
}

// shrinkCfg proposes simpler configurations (they may be invalid; an invalid
// candidate simply does not reproduce and is rejected by the minimiser).
func shrinkCfg(c Cfg) []Cfg {
	var out []Cfg
	if c.Mem != 0 {
		d := c.clone()
		d.Mem = 0
		out = append(out, d)
	}
	lists := []*[]string{&c.Origins, &c.Methods, &c.RequestHeaders, &c.ResponseHeaders}
	for li := range lists {
		l := *lists[li]
		// long lists: drop halves, quarters, eighths first (one candidate per element would be
		// quadratic in memory: 65536 clones of 65536 strings), single elements only at the ends
		type cut struct{ from, to int }
		var cuts []cut
		if len(l) > 24 {
			for parts := 2; parts <= 8; parts *= 2 {
				for k := 0; k < parts; k++ {
					cuts = append(cuts, cut{k * len(l) / parts, (k + 1) * len(l) / parts})
				}
			}
			for i := 0; i < 8; i++ {
				cuts = append(cuts, cut{i, i + 1}, cut{len(l) - 1 - i, len(l) - i})
			}
		} else {
			for i := range l {
				cuts = append(cuts, cut{i, i + 1})
			}
		}
		for _, ct := range cuts {
			if li == 0 && ct.to-ct.from >= len(l) {
				continue
			}
			d := c.clone()
			dl := []*[]string{&d.Origins, &d.Methods, &d.RequestHeaders, &d.ResponseHeaders}[li]
			*dl = append(append([]string{}, l[:ct.from]...), l[ct.to:]...)
			if len(*dl) == 0 {
				*dl = nil
			}
			out = append(out, d)
		}
	}
	for i := range c.ExtraBools {
		d := c.clone()
		d.ExtraBools = append(append([]string{}, c.ExtraBools[:i]...), c.ExtraBools[i+1:]...)
		out = append(out, d)
	}
	if c.MaxAge != 0 {
		d := c.clone()
		d.MaxAge = 0
		out = append(out, d)
	}
	if c.Status != 0 {
		d := c.clone()
		d.Status = 0
		out = append(out, d)
	}
	for _, f := range []func(*Cfg) *bool{
		func(c *Cfg) *bool { return &c.TolPSL }, func(c *Cfg) *bool { return &c.TolInsecure },
		func(c *Cfg) *bool { return &c.PNA }, func(c *Cfg) *bool { return &c.PNANoCors }, func(c *Cfg) *bool { return &c.Credentialed },
	} {
		if *f(&c) {
			d := c.clone()
			*f(&d) = false
			out = append(out, d)
		}
	}
	return out
}

// ---- pattern text helpers (independent of internal/origins)

type patParts struct {
	Scheme, Host, Port string // Host without "*." ; Port "" | "*" | digits
	Wild               bool
}

func splitPattern(p string) (pp patParts, ok bool) {
	i := strings.Index(p, "://")
	if i < 0 {
		return pp, false
	}
	pp.Scheme = p[:i]
	rest := p[i+3:]
	if strings.HasPrefix(rest, "*.") {
		pp.Wild = true
		rest = rest[2:]
	}
	if strings.HasPrefix(rest, "[") {
		j := strings.Index(rest, "]")
		if j < 0 {
			return pp, false
		}
		pp.Host = rest[:j+1]
		rest = rest[j+1:]
	} else {
		j := strings.Index(rest, ":")
		if j < 0 {
			j = len(rest)
		}
		pp.Host = rest[:j]
		rest = rest[j:]
	}
	if rest != "" {
		if rest[0] != ':' {
			return pp, false
		}
		pp.Port = rest[1:]
	}
	return pp, true
}

// denotes is the independent statement of "pattern p denotes origin o" from
// the Config documentation (used by C02's oracle, never by the generator of
// expected responses of differential checks).
func denotes(p string, o string) bool {
	if p == "*" {
		return true
	}
	pp, ok := splitPattern(p)
	if !ok {
		return false
	}
	op, ok := splitPattern(o)
	if !ok || op.Wild {
		return false
	}
	if pp.Scheme != op.Scheme {
		return false
	}
	if pp.Wild {
		if !strings.HasSuffix(op.Host, "."+pp.Host) || len(op.Host) <= len(pp.Host)+1 {
			return false
		}
	} else if pp.Host != op.Host {
		return false
	}
	return pp.Port == "*" || pp.Port == op.Port
}

func cfgAllowsOrigin(c Cfg, o string) bool {
	for _, p := range c.Origins {
		if denotes(p, o) {
			return true
		}
	}
	return false
}

// originsFor derives probe origins from a configuration: per pattern one or
// more matching origins and the near-misses.
func originsFor(c Cfg) (match, miss []string) {
	seenM, seenX := map[string]bool{}, map[string]bool{}
	addM := func(s string) {
		if !seenM[s] {
			seenM[s] = true
			match = append(match, s)
		}
	}
	addX := func(s string) {
		if !seenX[s] {
			seenX[s] = true
			miss = append(miss, s)
		}
	}
	pats := c.Origins
	if len(pats) > 48 {
		// a very long list: probes from its first 16, its last 8 and 16 evenly spaced patterns
		// (every pattern still takes part in deciding what matches)
		var sel []string
		sel = append(sel, pats[:16]...)
		for i := 0; i < 16; i++ {
			sel = append(sel, pats[16+i*(len(pats)-24)/16])
		}
		pats = append(sel, pats[len(pats)-8:]...)
	}
	for _, p := range pats {
		if p == "*" {
			addM("https://anything.test")
			continue
		}
		pp, ok := splitPattern(p)
		if !ok {
			continue
		}
		port := ""
		if pp.Port != "" && pp.Port != "*" {
			port = ":" + pp.Port
		}
		host := pp.Host
		if pp.Wild {
			host = "sub." + pp.Host
		}
		addM(pp.Scheme + "://" + host + port)
		if pp.Wild {
			addM(pp.Scheme + "://a.b." + pp.Host + port)
			// the wildcard stands for SEVERAL labels: each legal (<= 63 bytes), together
			// long; and one label of exactly 63 bytes
			if deep := "feature-new-checkout-flow-2.pr-1234.preview.eu-central-1.staging." + pp.Host; len(deep) <= 253 {
				addM(pp.Scheme + "://" + deep + port)
			}
			if l63 := strings.Repeat("l", 63) + "." + pp.Host; len(l63) <= 253 {
				addM(pp.Scheme + "://" + l63 + port)
			}
			addX(pp.Scheme + "://" + pp.Host + port)         // shallower: the base itself
			addX(pp.Scheme + "://sub" + pp.Host + port)      // no dot
			addX(pp.Scheme + "://." + pp.Host + port)        // empty label
			addX(pp.Scheme + "://x." + pp.Host + "x" + port) // extended on the right
		} else {
			addX(pp.Scheme + "://x" + pp.Host + port)    // left-extended without dot
			addX(pp.Scheme + "://sub." + pp.Host + port) // deeper
			if len(pp.Host) > 2 && !isIPHost(pp.Host) {
				addX(pp.Scheme + "://" + pp.Host[1:] + port) // truncated on the left
			}
		}
		if pp.Port == "*" {
			addM(pp.Scheme + "://" + host + ":8080")
			addM(pp.Scheme + "://" + host + ":65535")
		} else {
			addX(pp.Scheme + "://" + host + ":1234")
			if port != "" {
				addX(pp.Scheme + "://" + host)
			}
		}
		other := "https"
		if pp.Scheme == "https" {
			other = "http"
		}
		addX(other + "://" + host + port)
		addX(pp.Scheme + "s://" + host + port)
		// what sloppy non-browser clients send: trailing slash, a path, an upper-case
		// letter, an explicit default port, surrounding space — never denoted by the pattern
		if host == "" || pp.Scheme == "" {
			continue // a planted malformed pattern: nothing sensible to derive
		}
		full := pp.Scheme + "://" + host + port
		addX(full + "/")
		addX(full + "/path")
		addX(strings.ToUpper(full[:1]) + full[1:])
		addX(pp.Scheme + "://" + strings.ToUpper(host[:1]) + host[1:] + port)
		if port == "" && pp.Port != "*" {
			switch pp.Scheme {
			case "https":
				addX(full + ":443")
			case "http":
				addX(full + ":80")
			}
		}
		addX(" " + full)
		if host[0] != '[' {
			addX(pp.Scheme + "://[" + host + "]" + port) // brackets around something that is no IPv6 literal
		}
	}
	// near-misses of one pattern may be matches of another: re-classify with
	// the independent matcher so that the names stay honest
	var m2, x2 []string
	for _, o := range append(match, miss...) {
		if cfgAllowsOrigin(c, o) {
			m2 = append(m2, o)
		} else {
			x2 = append(x2, o)
		}
	}
	return dedup(m2), dedup(x2)
}

func dedup(s []string) []string {
	seen := map[string]bool{}
	var out []string
	for _, x := range s {
		if !seen[x] {
			seen[x] = true
			out = append(out, x)
		}
	}
	return out
}

// observeUnknownAPI: set (per process, by engine) for the differential checks only -
// C06, C07, C08, C12 and the stress companion, whose oracle is the code's own other
// self. Every middleware the harness creates then gets an observer registered through
// every exported method of *cors.Middleware this harness does not know and that takes
// one callback without results (OnPreflightFailure(func(X)), ...) or a *log.Logger:
// a changed tree may have grown hooks, and code behind a hook that nobody registers
// is code that never runs. An observer that returns nothing cannot legitimately
// change a response. Model-based checks never touch unknown API.
var observeUnknownAPI bool

var knownMethods = map[string]bool{"Config": true, "Reconfigure": true, "SetDebug": true, "Wrap": true}

var unknownAPICalls int

func registerObservers(m *cors.Middleware) {
	if !observeUnknownAPI || m == nil {
		return
	}
	v := reflect.ValueOf(m)
	t := v.Type()
	for i := 0; i < t.NumMethod(); i++ {
		mt := t.Method(i)
		if knownMethods[mt.Name] || mt.Type.NumIn() != 2 || mt.Type.NumOut() != 0 {
			continue
		}
		arg := mt.Type.In(1)
		switch {
		case arg.Kind() == reflect.Func && arg.NumOut() == 0:
			cb := reflect.MakeFunc(arg, func([]reflect.Value) []reflect.Value { return nil })
			func() {
				defer func() { recover() }()
				v.Method(i).Call([]reflect.Value{cb})
				unknownAPICalls++
			}()
		case arg.Kind() == reflect.Bool:
			// an unknown switch (SetStrict(bool), EnableX(bool) ...): switched ON, on every
			// middleware alike - subject and reference of a differential check get the same
			func() {
				defer func() { recover() }()
				v.Method(i).Call([]reflect.Value{reflect.ValueOf(true)})
				unknownAPICalls++
			}()
		case arg == reflect.TypeOf((*log.Logger)(nil)):
			func() {
				defer func() { recover() }()
				v.Method(i).Call([]reflect.Value{reflect.ValueOf(log.New(io.Discard, "", 0))})
				unknownAPICalls++
			}()
		}
	}
}

// pokeGetters calls every unknown exported method of *cors.Middleware that takes no
// argument (Stats(), String(), ...): a read-only accessor that an operator's dashboard
// polls. Whatever it returns is ignored; it must not change anything (a lazily built
// cache behind a getter is state all the same).
// pokeThisRun: set per run from the plan (a third of the runs). Not every run polls: a
// getter that creates state on its first call (a lazily built collector, a cache) would
// otherwise exist from the very first observation on, and a defect that needs "nobody has
// called it yet" could never show.
var pokeThisRun bool

func pokeGetters(m *cors.Middleware) {
	if !observeUnknownAPI || !pokeThisRun || m == nil {
		return
	}
	v := reflect.ValueOf(m)
	t := v.Type()
	for i := 0; i < t.NumMethod(); i++ {
		mt := t.Method(i)
		if knownMethods[mt.Name] || mt.Type.NumIn() != 1 {
			continue
		}
		func() {
			defer func() { recover() }()
			v.Method(i).Call(nil)
			unknownAPICalls++
		}()
	}
}

// mkMW / zeroMW: every middleware of the harness is created here.
func mkMW(cc cors.Config) (*cors.Middleware, error) {
	bgBeforeCreate(cc)
	m, err := cors.NewMiddleware(cc)
	bgAfterCreate()
	if err == nil {
		registerObservers(m)
		bgRegister(m)
		if bg.lastCfg != nil {
			bg.lastCfg[m] = cloneConfig(cc)
		}
	}
	return m, err
}

func zeroMW() *cors.Middleware {
	m := new(cors.Middleware)
	registerObservers(m)
	bgRegister(m)
	return m
}

// newMW builds a middleware from c; ok=false if the real code rejects c.
func newMW(c Cfg) (m *cors.Middleware, err error, panicked any) {
	defer func() {
		if p := recover(); p != nil {
			panicked = p
		}
	}()
	m, err = mkMW(c.Config())
	return
}

// varyCfg: a configuration related to a — the SMALLEST difference in one aspect (where
// "nothing changed, skip the work" shortcuts go wrong), or a's origins with other settings.
func varyCfg(r *R, a Cfg) Cfg {
	b := a.clone()
	if r.P(0.3) {
		// the SMALLEST difference: one aspect, everything else equal - where "nothing
		// changed, skip the swap" shortcuts go wrong
		switch r.Intn(7) {
		case 0: // Authorization next to the wildcard
			hasStar, hasAuth := false, -1
			for i, h := range b.RequestHeaders {
				hasStar = hasStar || h == "*"
				if strings.EqualFold(h, "authorization") {
					hasAuth = i
				}
			}
			switch {
			case hasStar && hasAuth >= 0:
				b.RequestHeaders = append(b.RequestHeaders[:hasAuth:hasAuth], b.RequestHeaders[hasAuth+1:]...)
			case hasStar:
				b.RequestHeaders = append(b.RequestHeaders, "Authorization")
			default:
				b.RequestHeaders = append(b.RequestHeaders, "X-One-More")
			}
		case 1:
			b.MaxAge = pick(r, []int{a.MaxAge + 1, 0, -1, 5})
		case 2:
			b.Status = pick(r, []int{0, 200, 204, 299})
		case 3:
			if !(len(b.Methods) == 1 && b.Methods[0] == "*") {
				b.Methods = append(b.Methods, "ONEMORE")
			}
		case 4:
			if len(b.ResponseHeaders) > 0 && b.ResponseHeaders[0] != "*" {
				b.ResponseHeaders = append(b.ResponseHeaders, "X-One-More-Exposed")
			} else if !b.Credentialed {
				b.ResponseHeaders = []string{"X-Only-Exposed"}
			}
		case 5:
			if len(b.Origins) > 0 && b.Origins[0] != "*" {
				b.Origins = append(b.Origins, "https://one-more.example.org")
			}
		case 6:
			if !b.PNANoCors && !b.PNA {
				star := false
				for _, o := range b.Origins {
					star = star || o == "*"
				}
				if !star {
					b.PNA = true
				}
			}
		}
		return b
	}
	fresh := genCfg(r)
	if r.P(0.6) {
		b.Methods = fresh.Methods
	}
	if r.P(0.6) {
		b.RequestHeaders = fresh.RequestHeaders
	}
	if r.P(0.5) {
		b.MaxAge = fresh.MaxAge
	}
	if r.P(0.5) {
		b.Status = fresh.Status
	}
	if r.P(0.4) && !b.Credentialed {
		b.ResponseHeaders = fresh.ResponseHeaders
	}
	if r.P(0.3) && len(b.Origins) > 0 && b.Origins[0] != "*" {
		p, insecure, psl := genPattern(r)
		if !insecure || !(b.Credentialed || b.PNA || b.PNANoCors) || b.TolInsecure {
			b.Origins = append(b.Origins, p)
			b.TolPSL = b.TolPSL || psl
		}
	}
	return b
}
