package main

// procenv.go — the process environment as a swarm dimension. A (changed) library
// may look at things that are fixed when a process starts: GOMAXPROCS /
// runtime.NumCPU (a shard count, a code path), environment variables it reads
// itself (a kill switch, a compatibility setting). None of the claimed properties
// lets the answer depend on them. Worker processes of a check therefore start in
// different environments: every fourth one in the inherited environment, the
// others with GOMAXPROCS set to a small value that is mostly NOT a power of two,
// and — only if the tree under test reads environment variables by a literal
// name (dict.go) — with one such variable set to a value built from the literals
// of the tree. The environment of the worker that found a violation is part of
// the replay file; confirmation, minimisation and replay run in that
// environment. The simulator itself does not depend on it (selftest.sh runs every
// engine at GOMAXPROCS 1, 4 and 16).

import (
	"encoding/json"
	"fmt"
	"os"
	"os/exec"
	"strings"
)

var gmpSlots = []int{0, 3, 6, 1, 0, 5, 7, 2, 0, 12, 3, 24, 0, 6, 5, 7}

// envCandidates: NAME=value for every environment variable the tree reads by a literal name.
func envCandidates() []string {
	var out []string
	for _, name := range dict.envNames {
		var vals []string
		for _, l := range dict.any.novel {
			if l == name || len(l) > 40 || strings.ContainsAny(l, " \t\n,=") || !isTokenStr(l) {
				continue
			}
			vals = append(vals, l+"=1", l)
		}
		vals = append(vals, "1", "true")
		for _, l := range dict.any.novel {
			if l == name || len(l) > 40 || strings.ContainsAny(l, " \t\n,=") || !isTokenStr(l) {
				continue
			}
			vals = append(vals, l+"=true", l+"=0", l+"=on")
		}
		vals = append(vals, "0", "on", "yes", "off")
		if len(vals) > 24 {
			vals = vals[:24]
		}
		for _, v := range vals {
			out = append(out, name+"="+v)
		}
	}
	return out
}

func procEnvFor(k, n int, seed uint64) []string {
	var env []string
	if g := gmpSlots[k%len(gmpSlots)]; g > 0 {
		env = append(env, fmt.Sprintf("GOMAXPROCS=%d", g))
	}
	if c := envCandidates(); len(c) > 0 && k%4 != 0 {
		j := k - k/4 - 1 // 0,1,2 | 3,4,5 | ...: the workers outside the baseline slots, in order
		env = append(env, c[(j+int(seed%uint64(len(c))))%len(c)])
	}
	return env
}

// workersFor: with environment candidates in play, enough workers to try (most of) them in one run.
func workersFor(workers int) int {
	if c := len(envCandidates()); c > 0 {
		return max(workers, min((c+1)*4/3+1, 48))
	}
	return workers
}

func myProcEnv() []string {
	var env []string
	if s := os.Getenv("SIMCHECK_PROCENV"); s != "" {
		json.Unmarshal([]byte(s), &env)
	}
	return env
}

func withProcEnv(cmd *exec.Cmd, env []string) *exec.Cmd {
	b, _ := json.Marshal(env)
	if len(env) == 0 {
		b = []byte("")
	}
	var base []string
	for _, kv := range os.Environ() { // (a variable set for this process is not inherited by a worker that is to run without it)
		if strings.HasPrefix(kv, "SIMCHECK_PROCENV=") {
			continue
		}
		drop := false
		for _, e := range myProcEnv() {
			if i := strings.IndexByte(e, '='); i > 0 && strings.HasPrefix(kv, e[:i+1]) {
				drop = true
			}
		}
		if !drop {
			base = append(base, kv)
		}
	}
	cmd.Env = append(append(base, env...), "SIMCHECK_PROCENV="+string(b))
	return cmd
}

func sameEnv(a, b []string) bool { return strings.Join(a, "\x00") == strings.Join(b, "\x00") }
