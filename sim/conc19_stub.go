//go:build !concsim

package main

// The concurrent-consumers world of C19 needs the schedule-controlled build
// (conc19.go, -tags concsim).

const concBuild = false
const c19ConcRule = ""

func genC19Conc(r *R, tier string) any { return nil }

func execC19Conc(p *C19Plan, c *Ctx) *Violation {
	fatal2("this plan belongs to the concurrent-consumers world of C19: replay it with ./check replay <file> (schedule-controlled build)")
	return nil
}

func shrinkC19Conc(p *C19Plan) []any { return nil }
