//go:build !simclock

package main

// The clock seam (clock_on.go) is built only when the tree under test imports
// "time"; the pinned tree does not, so there is no clock for its behaviour to
// depend on.

const clockBuild = false

func clockInit(seed uint64, c *Ctx) {}
func clockTick(where string)        {}
