package main

// c19.go — cancelsim: cfgerrors.All against a consumer party that cancels at
// every yield position (fault F8). Level: fault_enumeration — per generated
// tree every cancellation point is enumerated for three kinds of consumer.

import (
	"encoding/json"
	"errors"
	"fmt"
	"io/fs"
	"iter"
	"reflect"
	"strings"
	"time"

	"github.com/jub0bs/cors/cfgerrors"
)

type TNode struct {
	Leaf int     `json:"leaf,omitempty"` // >0: leaf id; the same id twice = the very same error value twice
	Kids []TNode `json:"kids,omitempty"` // join node
	Same int     `json:"same,omitempty"` // >0: reuse the error value built for the Same-th join node (a shared sub-tree)
}

type C19Plan struct {
	Tree      *TNode    `json:"tree,omitempty"`
	Cfg       *Cfg      `json:"cfg,omitempty"` // alternative: a real configuration error
	Planted   []Planted `json:"planted,omitempty"`
	ViaReconf bool      `json:"via_reconfigure,omitempty"`
	ReuseSeq  bool      `json:"reuse_seq,omitempty"` // obtain the iterator once and use the same iter.Seq value for every consumer
	// Inner > 0: while one traversal is suspended in its loop body, this many COMPLETE
	// traversals of unrelated errors (every third one abandoned at once) run on the same
	// goroutine: volume for whatever an iterator might recycle
	Inner int `json:"inner,omitempty"`
	// the concurrent-consumers world (conc19.go; only drawn and executed by the
	// schedule-controlled build, ./check C19 stage 1)
	Conc *C19Conc `json:"conc,omitempty"`
}

// C19Conc: several consumer tasks traversing error values at the same time, one
// runnable at any instant, the baton passed at planned schedule points.
type C19Conc struct {
	Trees    []TNode   `json:"trees,omitempty"`
	Tasks    []C19Task `json:"tasks"`
	Order    []int     `json:"order"`
	Preempts []CPre    `json:"preempts"`
	Sweep    bool      `json:"sweep,omitempty"`
}
type C19Task struct {
	Ops []C19Op `json:"ops"`
}
type C19Op struct {
	Kind    string    `json:"kind"`              // range | callback | pull | cfg
	Tree    int       `json:"tree,omitempty"`    // which error value (range, callback, pull)
	Shared  bool      `json:"shared,omitempty"`  // use the ONE iter.Seq value every task shares for that error value
	Break   int       `json:"break"`             // consumer cancels at this yield; -1: never
	Cfg     *Cfg      `json:"cfg,omitempty"`     // cfg: NewMiddleware(Cfg+Planted), then a full traversal of its error
	Planted []Planted `json:"planted,omitempty"` //
}
type CPre struct {
	Task  int `json:"task"`
	Op    int `json:"op"`
	Yield int `json:"yield"`
	To    int `json:"to"`
	Burst int `json:"burst"`
}

type c19 struct{}

func init() { register(c19{}) }

func (c19) ID() string    { return "C19" }
func (c19) Level() string { return "fault_enumeration" }
func (c19) Rule() string {
	if concBuild {
		return c19ConcRule
	}
	return "one case = one seeded join tree (bushy: depth<=6, fan-out 1..5; or, 8% of the cases, a deep spine of 7..100 nested joins with the nested join at a random sibling position; joins of one, nested joins, distinct leaf pointers) or one real configuration error with 1..8 planted violations; trees may contain the same error value or sub-tree twice; per case EVERY cancellation position k in 0..n is enumerated for three consumers (range+break, raw callback returning false, iter.Pull+stop), in 40% of the cases on ONE reused iterator value, plus re-entrant nested ranges over the same iterator value; for library errors the yielded errors must match the lines of Error() one by one; distinct = distinct plan hash; non-trivial = at least 2 leaves and at least one join node (so that at least one cancellation lands between siblings)"
}
func (c19) Budget(tier string) (int, time.Duration) {
	if concBuild {
		if tier == "thorough" {
			return 30_000_000, 6 * time.Minute
		}
		return 400_000, 20 * time.Second
	}
	if tier == "thorough" {
		return 4_000_000, 10 * time.Minute
	}
	return 150_000, 40 * time.Second
}
func (c19) Assumptions() []string {
	if concBuild {
		return []string{
			"the build is an AST-instrumented scratch copy of /repo's working tree (tools/instrument): a schedule point before every statement of cfgerrors and of the packages NewMiddleware runs through; exactly one consumer task is runnable at any time and the plan decides who",
			"error values are immutable and each consumer owns its loop state, so every traversal must yield exactly what the independent flattening yields, whoever else is traversing; a data race that needs true parallelism is outside this world (the C07 race companion covers the Middleware, not cfgerrors)",
		}
	}
	return []string{
		"trees are built with errors.Join only (the documented domain of cfgerrors.All)",
		"the independent flattening (explicit stack over Unwrap() []error) is the reference; leaves are compared by pointer identity",
	}
}
func (c19) Parties() map[string]string {
	if concBuild {
		return map[string]string{"cfgerrors.All": "real (AST-instrumented scratch copy: a schedule point before every statement)", "cors.NewMiddleware (error producer)": "real (instrumented)", "errors.Join, iter.Pull": "real (stdlib)", "consumer tasks": "stub (simulator-owned goroutines, one runnable at a time, preempted at planned schedule points)"}
	}
	return map[string]string{"cfgerrors.All": "real", "cors.NewMiddleware/Reconfigure (error producer)": "real", "errors.Join": "real (stdlib)", "iterator consumer": "stub (simulator-owned, cancels at the planned yield)"}
}
func (c19) FaultKinds() []string {
	if concBuild {
		return []string{"F3_preemption_fired", "F8_cancel_under_concurrency"}
	}
	return []string{"F8_cancel_range_break", "F8_cancel_callback_false", "F8_cancel_pull_stop", "F8_reentrant_range_over_same_iterator", "F8_consumer_unwinds_by_panic", "F8_many_traversals_inside_a_loop_body"}
}
func (c19) Probes() []string {
	if concBuild {
		return []string{"two_traversals_suspended_at_once", "preempted_inside_cfgerrors", "shared_iterator_value_across_tasks", "pull_consumer_under_concurrency", "library_error_traversed_under_concurrency", "sweep_run"}
	}
	return []string{"cancel_at_first", "cancel_at_last", "cancel_between_siblings_of_nested_join", "join_of_one", "real_cfg_error_tree", "no_cancel_full_traversal", "real_cfg_error_count_checked", "same_error_value_twice_in_tree", "same_iterator_value_reused", "tree_deeper_than_16", "tree_deeper_than_64", "leaf_with_an_unwrap_method"}
}

func genTree(r *R, depth int, next *int) TNode {
	if depth <= 0 || r.P(0.35) {
		if *next > 0 && r.P(0.08) {
			return TNode{Leaf: r.Range(1, *next)} // an error value that already occurs elsewhere in the tree
		}
		*next++
		return TNode{Leaf: *next}
	}
	if r.P(0.04) {
		return TNode{Same: r.Range(1, 4)} // a sub-tree that already occurs elsewhere (if that many joins exist yet)
	}
	n := r.Range(1, 5)
	if r.P(0.15) {
		n = 1
	}
	t := TNode{}
	for i := 0; i < n; i++ {
		t.Kids = append(t.Kids, genTree(r, depth-1, next))
	}
	return t
}

// genSpine builds a deep, narrow tree: a chain of `depth` nested joins, the
// nested join at a random position among 0..3 sibling leaves (so first, middle,
// last and only-child positions all occur at every depth). The documented
// domain is "arbitrarily nested errors.Join"; depth is where an iterator that
// keeps its own traversal state (explicit stack, pooled frames, depth-limited
// recursion) differs from the plain recursive one.
func genSpine(r *R, depth int, next *int) TNode {
	leaf := func() TNode { *next++; return TNode{Leaf: *next} }
	if depth <= 0 {
		return leaf()
	}
	n := r.Intn(4)
	at := r.Intn(n + 1)
	if r.P(0.3) {
		at = 0 // left-leaning: everything else is visited after the deep part
	}
	t := TNode{}
	for i := 0; i <= n; i++ {
		if i == at {
			t.Kids = append(t.Kids, genSpine(r, depth-1, next))
		} else if r.P(0.15) {
			t.Kids = append(t.Kids, genTree(r, 2, next))
		} else {
			t.Kids = append(t.Kids, leaf())
		}
	}
	return t
}

func treeDepth(t TNode) int {
	d := 0
	for _, k := range t.Kids {
		d = max(d, 1+treeDepth(k))
	}
	return d
}

func (e c19) Gen(r *R, tier string) any {
	p := e.gen(r, tier)
	if q, ok := p.(*C19Plan); ok && q.Conc == nil && r.P(0.06) {
		q.Inner = pick(r, []int{127, 128, 129, 255, 256, 257, 300, 1000})
	}
	return p
}

func (c19) gen(r *R, tier string) any {
	allowHugeOriginLists = false
	observeUnknownAPI = false
	if concBuild {
		return genC19Conc(r, tier)
	}
	if r.P(0.08) {
		id := 0
		d := pick(r, []int{7, 8, 9, 15, 16, 17, 18, 31, 32, 33, 34, 63, 64, 65, 66, 100})
		if r.P(0.5) {
			d = r.Range(7, 80)
		}
		t := genSpine(r, d, &id)
		return &C19Plan{Tree: &t, ReuseSeq: r.P(0.4)}
	}
	if r.P(0.25) {
		c := genCfg(r)
		return &C19Plan{Cfg: &c, Planted: genPlanted(r, r.Range(1, 8)), ViaReconf: r.P(0.5), ReuseSeq: r.P(0.4)}
	}
	id := 0
	t := genTree(r, r.Range(0, 6), &id)
	return &C19Plan{Tree: &t, ReuseSeq: r.P(0.4)}
}

func (c19) Decode(b []byte) (any, error) {
	var p C19Plan
	err := json.Unmarshal(b, &p)
	return &p, err
}

type leafErr struct{ id int }

func (l *leafErr) Error() string { return fmt.Sprintf("cors: leaf %d", l.id) }

type causeErr struct{ id int }

func (e *causeErr) Error() string { return fmt.Sprintf("cors: leaf %d (no cause)", e.id) }
func (e *causeErr) Unwrap() error { return nil }

type valErr struct{ id int }

func (e valErr) Error() string { return fmt.Sprintf("cors: value leaf %d", e.id) }

type errBuilder struct {
	leaves    map[int]error
	joinsSeen []error
	joins     int
	joinOfOne bool
	shared    bool
	wrapping  bool // some leaf has an Unwrap() error method
}

func (b *errBuilder) build(t TNode) error {
	if t.Same > 0 {
		if t.Same <= len(b.joinsSeen) {
			b.shared = true
			return b.joinsSeen[t.Same-1]
		}
		t = TNode{Leaf: 1000 + t.Same} // not that many joins yet: a fresh leaf instead
	}
	if t.Leaf > 0 {
		if e, ok := b.leaves[t.Leaf]; ok {
			b.shared = true
			return e
		}
		// a leaf is ANY error that is not a join: the library's own types, plain errors, and
		// the errors callers join in - annotated with %w, carrying an optional cause,
		// standard-library errors, value types. None of them is looked INTO.
		var e error
		switch t.Leaf % 7 {
		case 0, 2:
			e = &cfgerrors.UnacceptableMethodError{Value: fmt.Sprint(t.Leaf), Reason: "invalid"}
		case 3:
			e = fmt.Errorf("tenant %d: %w", t.Leaf, &leafErr{-t.Leaf}) // has Unwrap() error
			b.wrapping = true
		case 4:
			e = &causeErr{id: t.Leaf} // Unwrap() error returning nil
			b.wrapping = true
		case 5:
			e = &fs.PathError{Op: "open", Path: fmt.Sprintf("cors-%d.json", t.Leaf), Err: fs.ErrNotExist}
			b.wrapping = true
		case 6:
			e = valErr{t.Leaf} // a comparable value type
		default:
			e = &leafErr{t.Leaf}
		}
		b.leaves[t.Leaf] = e
		return e
	}
	var kids []error
	for _, k := range t.Kids {
		kids = append(kids, b.build(k))
	}
	b.joins++
	if len(kids) == 1 {
		b.joinOfOne = true
	}
	e := errors.Join(kids...)
	b.joinsSeen = append(b.joinsSeen, e)
	return e
}

// flatten is the independent reference: explicit stack, no recursion, no iterators.
func flatten(err error) []error {
	var out []error
	stack := []error{err}
	for len(stack) > 0 {
		e := stack[len(stack)-1]
		stack = stack[:len(stack)-1]
		if j, ok := e.(interface{ Unwrap() []error }); ok {
			ks := j.Unwrap()
			for i := len(ks) - 1; i >= 0; i-- {
				stack = append(stack, ks[i])
			}
			continue
		}
		out = append(out, e)
	}
	return out
}

func sameErrs(a, b []error) bool {
	if len(a) != len(b) {
		return false
	}
	for i := range a {
		if a[i] != b[i] {
			return false
		}
	}
	return true
}

func (c19) Exec(plan any, c *Ctx) *Violation {
	observeUnknownAPI = false
	p := plan.(*C19Plan)
	if p.Conc != nil {
		return execC19Conc(p, c)
	}
	var err error
	joins, joinOfOne := 0, false
	if p.Tree != nil {
		b := &errBuilder{leaves: map[int]error{}}
		err = b.build(*p.Tree)
		joins, joinOfOne = b.joins, b.joinOfOne
		if b.shared {
			c.hit("same_error_value_twice_in_tree")
		}
		if b.wrapping {
			c.hit("leaf_with_an_unwrap_method")
		}
		if d := treeDepth(*p.Tree); d > 64 {
			c.hit("tree_deeper_than_64")
			c.hit("tree_deeper_than_16")
		} else if d > 16 {
			c.hit("tree_deeper_than_16")
		}
	} else {
		bad := plantAll(*p.Cfg, p.Planted)
		var pan any
		func() {
			defer func() { pan = recover() }()
			if p.ViaReconf {
				m, e0, _ := newMW(*p.Cfg)
				if e0 != nil || m == nil {
					return
				}
				cc := bad.Config()
				err = m.Reconfigure(&cc)
			} else {
				_, err, _ = newMW(bad)
			}
		}()
		if pan != nil {
			return &Violation{Class: "panic", Key: "config", Detail: fmt.Sprintf("configuration panicked: %v cfg=%s", pan, bad)}
		}
		if err == nil {
			c.hit("cfg_error_nil") // C08/C04 territory; nothing to iterate here
			return nil
		}
		c.hit("real_cfg_error_tree")
		joins = 1
	}
	want := flatten(err)
	n := len(want)
	all := func() iter.Seq[error] { return cfgerrors.All(err) }
	if p.ReuseSeq {
		seq := cfgerrors.All(err) // ONE iterator value, ranged over again and again (also after a break)
		all = func() iter.Seq[error] { return seq }
		c.hit("same_iterator_value_reused")
	}
	c.logf("tree with %d leaves, %d joins", n, joins)
	if joinOfOne {
		c.hit("join_of_one")
	}
	c.Nontrivial = n >= 2 && joins >= 1
	for k := 0; k <= n; k++ { // k == n: no cancellation
		wantK := want[:min(k+1, n)]
		// consumer 1: range + break
		var got []error
		pan := catch(func() {
			i := 0
			for e := range all() {
				got = append(got, e)
				betweenSteps("the next yield (a slow consumer)")
				if i == k {
					break
				}
				i++
			}
		})
		c.hit("F8_cancel_range_break")
		c.logf("range+break at %d: saw %d", k, len(got))
		if pan != "" {
			return &Violation{Class: "panic", Key: "range", Detail: fmt.Sprintf("range+break at yield %d of %d panicked: %s", k, n, pan)}
		}
		if !sameErrs(got, wantK) {
			return &Violation{Class: "wrong-leaves", Key: "range", Detail: fmt.Sprintf("range+break at yield %d of %d: saw %d errors %v, want %v", k, n, len(got), got, wantK)}
		}
		// consumer 2: raw callback, keeps counting after returning false
		got = got[:0]
		after := 0
		cancelled := false
		pan = catch(func() {
			i := 0
			all()(func(e error) bool {
				if cancelled {
					after++
					return false
				}
				got = append(got, e)
				if i == k {
					cancelled = true
					return false
				}
				i++
				return true
			})
		})
		c.hit("F8_cancel_callback_false")
		c.logf("callback false at %d: saw %d, after-cancel yields %d", k, len(got), after)
		if pan != "" {
			return &Violation{Class: "panic", Key: "callback", Detail: fmt.Sprintf("callback at yield %d of %d panicked: %s", k, n, pan)}
		}
		if after > 0 {
			return &Violation{Class: "yield-after-cancel", Key: "callback", Detail: fmt.Sprintf("consumer returned false at yield %d of %d and was called %d more time(s)", k, n, after)}
		}
		if !sameErrs(got, wantK) {
			return &Violation{Class: "wrong-leaves", Key: "callback", Detail: fmt.Sprintf("callback cancelled at yield %d of %d: saw %v, want %v", k, n, got, wantK)}
		}
		// consumer 3: iter.Pull + stop
		got = got[:0]
		pan = catch(func() {
			next, stop := iter.Pull(all())
			defer stop()
			for i := 0; ; i++ {
				e, ok := next()
				if !ok {
					break
				}
				got = append(got, e)
				if i == k {
					stop()
					if _, ok := next(); ok {
						got = append(got, errors.New("value after stop"))
					}
					break
				}
			}
		})
		c.hit("F8_cancel_pull_stop")
		c.logf("pull+stop at %d: saw %d", k, len(got))
		if pan != "" {
			return &Violation{Class: "panic", Key: "pull", Detail: fmt.Sprintf("iter.Pull stop at yield %d of %d panicked: %s", k, n, pan)}
		}
		if !sameErrs(got, wantK) {
			return &Violation{Class: "wrong-leaves", Key: "pull", Detail: fmt.Sprintf("iter.Pull stopped at yield %d of %d: saw %v, want %v", k, n, got, wantK)}
		}
		switch {
		case k == 0 && n > 1:
			c.hit("cancel_at_first")
		case k == n-1 && n > 1:
			c.hit("cancel_at_last")
		case k == n:
			c.hit("no_cancel_full_traversal")
		}
		if k > 0 && k < n-1 && joins >= 2 {
			c.hit("cancel_between_siblings_of_nested_join")
		}
	}
	// fault F8b: re-entrant use of ONE iterator value — while an outer range over
	// seq is suspended at position k, a complete inner range over the same seq
	// runs; both must see exactly the leaves
	if p.ReuseSeq && n >= 2 && n <= 64 {
		seq := cfgerrors.All(err)
		for _, k := range []int{0, n / 2, n - 1} {
			var outer, inner []error
			pan := catch(func() {
				i := 0
				for e := range seq {
					outer = append(outer, e)
					if i == k {
						for e2 := range seq {
							inner = append(inner, e2)
						}
					}
					i++
				}
			})
			c.hit("F8_reentrant_range_over_same_iterator")
			if pan != "" {
				return &Violation{Class: "panic", Key: "reentrant", Detail: fmt.Sprintf("nested range over the same iterator value at outer position %d of %d panicked: %s", k, n, pan)}
			}
			if !sameErrs(inner, want) || !sameErrs(outer, want) {
				return &Violation{Class: "wrong-leaves", Key: "reentrant", Detail: fmt.Sprintf("nested range over the same iterator value at outer position %d of %d: outer saw %v, inner saw %v, want %v both times", k, n, outer, inner, want)}
			}
		}
	}
	// volume: with the outer traversal suspended at position k, p.Inner traversals of
	// unrelated errors run to completion (every third is abandoned after its first leaf)
	if p.Inner > 0 && n >= 2 {
		u1 := errors.Join(&leafErr{id: -11}, errors.Join(&leafErr{id: -12}, &leafErr{id: -13}))
		wantU := flatten(u1)
		for _, k := range dedupInts([]int{0, n / 2}) {
			var outer []error
			bad := ""
			pan := catch(func() {
				i := 0
				for e := range all() {
					outer = append(outer, e)
					if i == k {
						for j := 0; j < p.Inner && bad == ""; j++ {
							var inner []error
							for e2 := range cfgerrors.All(u1) {
								inner = append(inner, e2)
								if j%3 == 2 {
									break
								}
							}
							w := wantU
							if j%3 == 2 {
								w = wantU[:1]
							}
							if !sameErrs(inner, w) {
								bad = fmt.Sprintf("inner traversal no. %d of an unrelated error saw %v, want %v", j+1, inner, w)
							}
						}
					}
					i++
				}
			})
			c.hit("F8_many_traversals_inside_a_loop_body")
			if pan != "" {
				return &Violation{Class: "panic", Key: "volume", Detail: fmt.Sprintf("%d traversals inside the loop body at outer position %d of %d: %s", p.Inner, k, n, pan)}
			}
			if bad != "" {
				return &Violation{Class: "wrong-leaves", Key: "volume", Detail: fmt.Sprintf("outer traversal suspended at position %d of %d: %s", k, n, bad)}
			}
			if !sameErrs(outer, want) {
				return &Violation{Class: "wrong-leaves", Key: "volume", Detail: fmt.Sprintf("after %d traversals of unrelated errors ran inside its loop body at position %d, the outer traversal saw %d errors %v, want %d %v", p.Inner, k, len(outer), outer, n, want)}
			}
		}
	}
	// consumer 4: the loop body UNWINDS at yield k (a panic recovered further up, as
	// net/http does around a handler; runtime.Goexit from t.Fatal behaves alike). Whatever
	// the iterator held at that instant must not show in the next traversal - of this
	// error or of an unrelated one.
	other := errors.Join(&leafErr{id: -1}, errors.Join(&leafErr{id: -2}, &leafErr{id: -3}))
	wantOther := flatten(other)
	for _, k := range dedupInts([]int{0, 1, n / 2, n - 2, n - 1}) {
		if k < 0 || k >= n {
			continue
		}
		pan := catch(func() {
			i := 0
			for range all() {
				if i == k {
					panic(consumerUnwinds)
				}
				i++
			}
		})
		c.hit("F8_consumer_unwinds_by_panic")
		if pan != consumerUnwinds {
			return &Violation{Class: "panic", Key: "unwind", Detail: fmt.Sprintf("consumer panicking at yield %d of %d: expected its own panic to propagate, got %q", k, n, pan)}
		}
		for _, probe := range []struct {
			name string
			seq  iter.Seq[error]
			want []error
		}{{"the same error", cfgerrors.All(err), want}, {"an unrelated error", cfgerrors.All(other), wantOther}} {
			var got []error
			if pan := catch(func() {
				for e := range probe.seq {
					got = append(got, e)
				}
			}); pan != "" {
				return &Violation{Class: "panic", Key: "after-unwind", Detail: fmt.Sprintf("traversal of %s after a consumer unwound at yield %d of %d panicked: %s", probe.name, k, n, pan)}
			}
			if !sameErrs(got, probe.want) {
				return &Violation{Class: "wrong-leaves", Key: "after-unwind", Detail: fmt.Sprintf("after a consumer unwound (recovered panic) at yield %d of %d, a full traversal of %s yields %d errors %v, want %d %v", k, n, probe.name, len(got), got, len(probe.want), probe.want)}
			}
		}
	}
	// every yielded error of a real configuration error is a non-nil leaf
	for _, e := range want {
		if e == nil {
			return &Violation{Class: "nil-leaf", Detail: "flattened tree contains nil"}
		}
	}
	// second sentence of the property, for errors returned by the library: the
	// number of yielded errors equals the number of individual violations the
	// error REPORTS. Independent count: errors.Join renders one line per leaf and
	// every cfgerrors message is a single line starting with "cors: ".
	if p.Tree == nil {
		var yielded []error
		for e := range cfgerrors.All(err) {
			yielded = append(yielded, e)
		}
		lines := strings.Split(err.Error(), "\n")
		c.hit("real_cfg_error_count_checked")
		// every violation the library reports is of a type its cfgerrors package declares; and
		// ONE planted violation of a kind that names one offending value is one violation
		for i, e := range yielded {
			if e == nil {
				continue
			}
			t := reflect.TypeOf(e)
			for t.Kind() == reflect.Pointer {
				t = t.Elem()
			}
			if !strings.HasSuffix(t.PkgPath(), "/cfgerrors") {
				return &Violation{Class: "foreign-leaf", Key: t.String(), Detail: fmt.Sprintf("cfg=%s: yielded error %d is a %T (%q): not a violation type of package cfgerrors", plantAll(*p.Cfg, p.Planted), i, e, e.Error())}
			}
		}
		baseOK := false
		if m0, e0, pan0 := newMW(*p.Cfg); m0 != nil && e0 == nil && pan0 == nil {
			baseOK = true // (a shrunk plan may have lost a toleration its base configuration needs)
		}
		if len(p.Planted) == 1 && baseOK {
			switch p.Planted[0].Kind % nPlantKinds {
			case 1, 5, 6, 8, 9:
				if len(yielded) != 1 {
					_, what := plant(*p.Cfg, p.Planted[0])
					return &Violation{Class: "count-mismatch", Key: "single", Detail: fmt.Sprintf("one planted violation (%s) but All yields %d errors: %q", what, len(yielded), err.Error())}
				}
			}
		}
		if len(lines) != len(yielded) {
			return &Violation{Class: "count-mismatch", Key: "lines", Detail: fmt.Sprintf("cfg=%s: the error reports %d violations (lines of Error()) but All yields %d errors: %q", plantAll(*p.Cfg, p.Planted), len(lines), len(yielded), err.Error())}
		}
		for i, e := range yielded {
			if e == nil {
				return &Violation{Class: "nil-leaf", Key: "yielded", Detail: "All yielded a nil error"}
			}
			if _, isJoin := e.(interface{ Unwrap() []error }); isJoin {
				return &Violation{Class: "non-leaf-yielded", Key: "yielded", Detail: fmt.Sprintf("All yielded a join node at position %d: %q", i, e.Error())}
			}
			if e.Error() != lines[i] {
				return &Violation{Class: "count-mismatch", Key: "order", Detail: fmt.Sprintf("yielded error %d is %q but line %d of the report is %q", i, e.Error(), i, lines[i])}
			}
		}
	}
	return nil
}

const consumerUnwinds = "consumer unwinds (injected)"

func dedupInts(xs []int) []int {
	seen := map[int]bool{}
	var out []int
	for _, x := range xs {
		if !seen[x] {
			seen[x] = true
			out = append(out, x)
		}
	}
	return out
}

func catch(f func()) (pan string) {
	defer func() {
		if p := recover(); p != nil {
			pan = fmt.Sprint(p)
		}
	}()
	f()
	return ""
}

func (c19) Shrink(plan any) []any {
	p := plan.(*C19Plan)
	if p.Conc != nil {
		return shrinkC19Conc(p)
	}
	var out []any
	if p.Inner > 0 {
		q := *p
		q.Inner = 0
		out = append(out, &q)
	}
	if p.Tree == nil {
		for i := range p.Planted {
			q := *p
			q.Planted = append(append([]Planted{}, p.Planted[:i]...), p.Planted[i+1:]...)
			if len(q.Planted) > 0 {
				out = append(out, &q)
			}
		}
		for _, sc := range shrinkCfg(*p.Cfg) {
			q := *p
			sc := sc
			q.Cfg = &sc
			out = append(out, &q)
		}
		return out
	}
	for _, t := range shrinkTree(*p.Tree) {
		t := t
		out = append(out, &C19Plan{Tree: &t, Inner: p.Inner, ReuseSeq: p.ReuseSeq})
	}
	return out
}

func shrinkTree(t TNode) []TNode {
	var out []TNode
	if t.Leaf > 0 {
		return nil
	}
	// replace by a child; drop a child; shrink a child
	for _, k := range t.Kids {
		out = append(out, k)
	}
	if len(t.Kids) > 1 {
		for i := range t.Kids {
			d := TNode{Kids: append(append([]TNode{}, t.Kids[:i]...), t.Kids[i+1:]...)}
			out = append(out, d)
		}
	}
	for i, k := range t.Kids {
		for _, sk := range shrinkTree(k) {
			d := TNode{Kids: append([]TNode{}, t.Kids...)}
			d.Kids[i] = sk
			out = append(out, d)
		}
	}
	return out
}
