//go:build concsim

package main

// c07.go — concsim: seeded, replayable interleavings of requests with
// Reconfigure / SetDebug / Config on ONE shared Middleware, at statement
// granularity (the build is an instrumented scratch copy of /repo, see
// tools/instrument), checked for linearizability with porcupine against the
// SEQUENTIAL real code.
//
// Tasks are real goroutines, but exactly one is runnable at any time: the
// baton is passed at simrt.Yield / simrt.Acquire inside the library and at the
// simulator-owned seams (Header(), WriteHeader(), handler). Who runs next is
// read from the plan.

import (
	"encoding/json"
	"fmt"
	"hash/fnv"
	"net/http"
	"os"
	"runtime"
	"sort"
	"strings"
	"sync"
	"time"
	"unsafe"

	"github.com/anishathalye/porcupine"
	"github.com/jub0bs/cors"
	"github.com/jub0bs/cors/simrt"
)

// ---------------------------------------------------------------- plan

type COp struct {
	Kind    string    `json:"kind"` // req | reconf | reconf_nil | reconf_invalid | setdebug | config | restore
	Cfg     int       `json:"cfg,omitempty"`
	Debug   bool      `json:"debug,omitempty"`
	Req     *Req      `json:"req,omitempty"`
	Planted []Planted `json:"planted,omitempty"`
	Reent   []ReentOp `json:"reentrant,omitempty"` // req only: operator calls made by the request's own task at a seam
	// Twice: the request goes through m.Wrap(between(m.Wrap(handler))) - the same middleware
	// applied twice (on the router and on a route, say) with a layer in between, at which
	// re-entrant calls with Seam "between" are made. Only generated in sequential plans and
	// only with calls that change no state (a rejected Reconfigure, Config()): each
	// application reads the state for itself.
	Twice bool `json:"twice,omitempty"`
	// Rep > 1: the operator call is made that many times in a row (volume plans only:
	// no preemption, so the whole series is atomic and equals one call)
	Rep int `json:"rep,omitempty"`
}

type ReentOp struct {
	Seam string `json:"seam"` // header | writeheader | handler
	Op   COp    `json:"op"`
}

type CTask struct {
	Ops []COp `json:"ops"`
}

// Preempt: when task Task executes its op number Op and reaches its Yield-th
// schedule point within that op, switch to task To and let it complete Burst
// operations before coming back.
type Preempt struct {
	Task  int `json:"task"`
	Op    int `json:"op"`
	Yield int `json:"yield"`
	To    int `json:"to"`
	Burst int `json:"burst"`
}

type C07Plan struct {
	Cfgs      []Cfg     `json:"cfgs"`
	InitCfg   int       `json:"init_cfg"` // -1: passthrough (zero value)
	InitDebug bool      `json:"init_debug,omitempty"`
	Tasks     []CTask   `json:"tasks"`
	Order     []int     `json:"order"` // default order in which tasks get the baton
	Preempts  []Preempt `json:"preempts"`
	Sweep     bool      `json:"sweep,omitempty"` // member of an enumerating sweep block (informational)
}

type c07 struct{}

func init() { register(c07{}) }

func (c07) ID() string    { return "C07" }
func (c07) Level() string { return "exploration" }
func (c07) Rule() string {
	return "one case = 2..4 configurations (+passthrough) + 1..3 client tasks x 1..4 requests chosen to discriminate the states in play + 1..2 operator tasks x 1..4 operations (Reconfigure(c_i), Reconfigure(nil), Reconfigure(invalid), SetDebug, Config, Reconfigure(Config())) + re-entrant operator calls from inside Header()/WriteHeader()/the wrapped handler + a schedule: default task order and 0..4 burst preemptions placed uniformly over the measured schedule points of a victim operation (statement granularity inside package cors); every fourth run belongs to an enumerating SWEEP block (192 runs sharing one small scenario, run i preempting the victim operation at its i-th schedule point with the other party acting there, plus a follow-up request and Config()); requests go through long-lived and fresh wrapped handlers; unknown bool options of a changed tree are switched on at random; the recorded history is checked for linearizability against the sequential real code; distinct = distinct plan hash; non-trivial = at least one context switch happened inside an operation or a re-entrant call executed"
}
func (c07) Budget(tier string) (int, time.Duration) {
	if tier == "thorough" {
		return 3_000_000, 15 * time.Minute
	}
	return 120_000, 40 * time.Second
}
func (c07) Assumptions() []string {
	return []string{
		"the build is an AST-instrumented scratch copy of /repo's working tree: a schedule point before every statement of the root package, lock acquisition routed through the simulator; the instrumented copy passes the repository's own test suite with the hooks off (checked on every run by ./check)",
		"specification = linearizability against the sequential real code: some total order of the operations that respects real-time order in which every response / Config() value / error equals what a fresh middleware driven through the preceding mutators in one task answers",
		"porcupine timeouts are counted as inconclusive, never reported",
		"the data-race clause is decided by the companion race stress (uninstrumented tree, -race, 16 free-running goroutines), which is not schedule-controlled",
		"the library starts no goroutines of its own (a changed tree that does would hang the baton scheduler: watchdog, exit 2)",
	}
}
func (c07) Parties() map[string]string {
	return map[string]string{"cors.Middleware incl. sync.RWMutex (TryLock/TryRLock)": "real (instrumented copy)", "scheduler": "simulator (baton passing, plan-driven)", "clients, operators": "stub tasks", "wrapped handler / ResponseWriter": "stub (schedule points and re-entrant operator calls inside)", "reference": "the real code executed sequentially (porcupine model)"}
}
func (c07) FaultKinds() []string {
	return []string{"sweep_runs_enumerating_every_schedule_point_of_a_victim_operation", "F3_preemption_fired", "F3_reentrant_at_header", "F3_reentrant_at_writeheader", "F3_reentrant_at_handler", "F1_rejected_reconfigure", "F2_restore"}
}
func (c07) Probes() []string {
	ps := []string{"req_overlapped_1_state_change", "req_overlapped_2_state_changes", "passthrough_flip_during_request", "rejected_reconfigure_overlapped_request", "histories_checked", "porcupine_ok", "sequential_reference_checked_against_fresh_twins"}
	if os.Getenv("VERIF_LOCK_SEAMS") != "0" { // a tree without lock operations (atomics only) cannot reach these
		ps = append(ps, "acquire_parked", "writer_preempted_in_critical_section", "preempt_between_snapshot_and_dispatch")
	}
	return ps
}

// ProbeNeeds: probes that presuppose a shape of the code under test. A tree
// whose request path takes no lock at all (an atomically swapped snapshot) is a
// legitimate implementation of the property; there is then no "between
// snapshot (lock released) and dispatch" and the probe is not demanded.
func (c07) ProbeNeeds() map[string]string {
	return map[string]string{"preempt_between_snapshot_and_dispatch": "request_released_a_lock", "acquire_parked": "lock_acquired", "writer_preempted_in_critical_section": "lock_acquired"}
}

// ---------------------------------------------------------------- generation

func genOperatorOp(r *R, nCfg int) COp {
	switch x := r.Intn(100); {
	case x < 30:
		return COp{Kind: "reconf", Cfg: r.Intn(nCfg)}
	case x < 40:
		return COp{Kind: "reconf_nil"}
	case x < 48:
		return COp{Kind: "reconf_invalid", Cfg: r.Intn(nCfg), Planted: genPlanted(r, r.Range(1, 2))}
	case x < 70:
		return COp{Kind: "setdebug", Debug: r.P(0.5)}
	case x < 90:
		return COp{Kind: "config"}
	default:
		return COp{Kind: "restore"}
	}
}

// discriminating picks requests whose answers differ between as many of the
// states in play as possible (computed with the sequential code).
type reqPool struct {
	sc     []scoredReq
	actual []scoredReq
}
type scoredReq struct {
	q Req
	d int
}

func (rp *reqPool) pick(r *R, n int) []Req {
	var out []Req
	top := max(4, len(rp.sc)/4)
	for i := 0; i < n; i++ {
		switch x := r.Intn(20); {
		case x < 5 && len(rp.actual) > 0:
			out = append(out, rp.actual[r.Intn(min(len(rp.actual), 6))].q)
		case x < 16:
			out = append(out, rp.sc[r.Intn(top)].q)
		default:
			out = append(out, rp.sc[r.Intn(len(rp.sc))].q)
		}
	}
	return out
}

func discriminating(r *R, cfgs []Cfg) *reqPool {
	type st struct{ srv *mwServer }
	var states []*mwServer
	states = append(states, newServer(zeroMW().Wrap))
	for _, c := range cfgs {
		for _, dbg := range []bool{false, true} {
			m, err, _ := newMW(c)
			if err != nil {
				continue
			}
			m.SetDebug(dbg)
			states = append(states, newServer(m.Wrap))
		}
	}
	var cands []Req
	for _, c := range cfgs {
		s := probeSuite(c)
		for i := 0; i < 16; i++ {
			cands = append(cands, s[r.Intn(len(s))])
		}
	}
	var sc []scoredReq
	for _, q := range cands {
		seen := map[Resp]bool{}
		for _, s := range states {
			seen[s.do(q)] = true
		}
		sc = append(sc, scoredReq{q, len(seen)})
	}
	sort.SliceStable(sc, func(i, j int) bool { return sc[i].d > sc[j].d })
	rp := &reqPool{sc: sc}
	for _, x := range sc { // non-preflight CORS requests whose answer separates at least two states
		if _, hasO := x.q.get(hOrigin); hasO && !isPreflightReq(x.q) && x.d >= 2 {
			rp.actual = append(rp.actual, x)
		}
	}
	return rp
}

// genSweep: every fourth run belongs to a SWEEP. Runs are grouped in blocks of
// sweepBlock consecutive sweep indices; all runs of a block share one small
// scenario (drawn from the block's own PRNG stream): a victim operation in one
// task and 1..3 operations in another. Run number i of the block preempts the
// victim at its i-th schedule point and lets the other task run all its
// operations there. A block therefore ENUMERATES "the other party acting at
// every point of the victim operation" — the property's own quantifier ("a
// reconfiguration landing at each point ...") — for that scenario; scenarios
// are sampled.
const sweepBlock = 192

func (e c07) genSweep(seed, idx uint64) any {
	block, pos := idx/sweepBlock, int(idx%sweepBlock)
	r := newR(seed^0x53574545505f3037, block)
	p := &C07Plan{Sweep: true}
	n := r.Range(2, 3)
	p.Cfgs = append(p.Cfgs, genCfgX(r))
	for i := 1; i < n; i++ {
		if r.P(0.5) {
			p.Cfgs = append(p.Cfgs, varyCfg(r, p.Cfgs[r.Intn(i)]))
		} else {
			p.Cfgs = append(p.Cfgs, genCfgX(r))
		}
	}
	if sz, ok := dict.sizes.pick(r, 0.04); ok && sz > 100 {
		padOriginsTo(p.Cfgs, sz) // a mined size threshold applies to every configuration of the run
	}
	p.InitCfg = r.Intn(n+1) - 1
	p.InitDebug = p.InitCfg >= 0 && r.P(0.5)
	pool := discriminating(r, p.Cfgs)
	var victim, other CTask
	var tailOps []COp
	sub := -1
	if kind := r.Intn(100); kind >= 75 {
		// two OPERATOR calls overlapping, nothing else in flight: the victim call is preempted
		// at each of its schedule points, the other call(s) run to completion there. An
		// operator call has few schedule points, so the block is divided into 24 scenarios of
		// 8 positions. What such an overlap leaves behind may be latent (a debug flag on a
		// passthrough, a half-applied state): the tail begins with a REVEALING operator call.
		sub = pos % 8
		r = newR(seed^0x4f504f505f303743, block*24+uint64(pos/8))
		cur := p.InitDebug
		opKinds := []string{"reconf", "reconf_nil", "reconf_invalid", "setdebug", "restore", "config"}
		mk := func() COp {
			switch k := pick(r, opKinds); k {
			case "reconf":
				return COp{Kind: k, Cfg: r.Intn(n)}
			case "reconf_invalid":
				return COp{Kind: k, Cfg: r.Intn(n), Planted: genPlanted(r, r.Range(1, 2))}
			case "setdebug":
				return COp{Kind: k, Debug: cur != r.P(0.75)} // mostly a call that changes the mode
			default:
				return COp{Kind: k}
			}
		}
		victim.Ops = []COp{mk()}
		for k := r.Range(1, 2); k > 0; k-- {
			other.Ops = append(other.Ops, mk())
		}
		switch x := r.Intn(10); {
		case x < 6:
			tailOps = append(tailOps, COp{Kind: "reconf", Cfg: r.Intn(n)})
		case x < 8:
			tailOps = append(tailOps, COp{Kind: "setdebug", Debug: r.P(0.5)})
		case x < 9:
			tailOps = append(tailOps, COp{Kind: "restore"})
		}
	} else if kind < 45 { // a request is the victim, operator calls land inside it
		q := pool.pick(r, 1)[0]
		victim.Ops = []COp{{Kind: "req", Req: &q}}
		for k := r.Range(1, 3); k > 0; k-- {
			other.Ops = append(other.Ops, genOperatorOp(r, n))
		}
	} else { // an operator call is the victim, requests (and another operator call) land inside it
		victim.Ops = []COp{genOperatorOp(r, n)}
		for _, q := range pool.pick(r, r.Range(1, 2)) {
			q := q
			other.Ops = append(other.Ops, COp{Kind: "req", Req: &q})
		}
		if r.P(0.5) {
			other.Ops = append(other.Ops, genOperatorOp(r, n))
		}
	}
	// a follow-up request after both, to observe what the overlap left behind
	fq := pool.pick(r, 1)[0]
	if r.P(0.5) && victim.Ops[0].Req != nil {
		fq = *victim.Ops[0].Req
	}
	tail := CTask{Ops: append(tailOps, COp{Kind: "req", Req: &fq}, COp{Kind: "config"})}
	if sub >= 0 {
		dq := pool.pick(r, 1)[0] // a second, independently drawn, observation
		tail.Ops = append(tail.Ops, COp{Kind: "req", Req: &dq})
	}
	p.Tasks = []CTask{victim, other, tail}
	p.Order = []int{0, 1, 2}
	counts, _ := dryRun(p)
	if ny := counts[0][0]; ny > 0 {
		y := pos % ny
		if sub >= 0 {
			y = sub % ny
			if ny > 8 {
				y = sub * ny / 8
			}
		}
		p.Preempts = []Preempt{{Task: 0, Op: 0, Yield: y, To: 1, Burst: len(other.Ops)}}
	}
	return p
}

// genVolume: a sequential plan (no preemption): requests through the ONE handler every task
// shares, then an operator task whose calls are repeated tens of thousands of times, then
// requests through the same handler again. Small configurations (the repetitions are real calls).
func (e c07) genVolume(r *R) any {
	p := &C07Plan{}
	n := r.Range(2, 3)
	for i := 0; i < n; i++ {
		p.Cfgs = append(p.Cfgs, makeSmall(genCfg(r)))
	}
	p.InitCfg = r.Intn(n+1) - 1
	p.InitDebug = p.InitCfg >= 0 && r.P(0.5)
	pool := discriminating(r, p.Cfgs)
	client := func() CTask {
		var t CTask
		for _, q := range pool.pick(r, 3) {
			q := q
			t.Ops = append(t.Ops, COp{Kind: "req", Req: &q})
		}
		return t
	}
	var op CTask
	big := pick(r, []int{32767, 32768, 32769, 65535, 65536, 65537})
	for k := r.Range(1, 3); k > 0; k-- {
		o := genOperatorOp(r, n)
		switch o.Kind {
		case "setdebug", "reconf_nil": // cheap calls: long series
			o.Rep = pick(r, []int{1, 256, 300, big, big, big})
		case "config":
		default: // a Reconfigure that validates a configuration (hundreds of schedule points each): a few hundred
			o.Rep = pick(r, []int{1, 255, 256, 257, 300, 300, 512})
		}
		op.Ops = append(op.Ops, o)
	}
	p.Tasks = []CTask{client(), op, client()}
	if r.P(0.5) {
		var op2 CTask
		o := COp{Kind: "setdebug", Debug: r.P(0.5)}
		if r.P(0.3) {
			o = COp{Kind: "reconf_nil"}
		}
		o.Rep = pick(r, []int{1, 256, 700, 65536 - big + 1})
		op2.Ops = append(op2.Ops, o)
		p.Tasks = append(p.Tasks, op2, client())
	}
	for i := range p.Tasks {
		p.Order = append(p.Order, i)
	}
	return p
}

// genTwice: a sequential plan in which requests go through the same middleware applied twice,
// with calls that change no state made between the two applications.
func (e c07) genTwice(r *R) any {
	p := &C07Plan{}
	n := r.Range(2, 3)
	for i := 0; i < n; i++ {
		p.Cfgs = append(p.Cfgs, genCfgX(r))
	}
	p.InitCfg = r.Intn(n)
	p.InitDebug = r.P(0.5)
	pool := discriminating(r, p.Cfgs)
	client := func() CTask {
		var t CTask
		for _, q := range pool.pick(r, r.Range(1, 3)) {
			q := q
			op := COp{Kind: "req", Req: &q, Twice: true}
			for k := r.Range(0, 2); k > 0; k-- {
				ro := COp{Kind: "config"}
				if r.P(0.7) {
					ro = COp{Kind: "reconf_invalid", Cfg: r.Intn(n), Planted: genPlanted(r, r.Range(1, 2))}
				}
				op.Reent = append(op.Reent, ReentOp{Seam: "between", Op: ro})
			}
			t.Ops = append(t.Ops, op)
		}
		return t
	}
	var ops CTask
	for k := r.Range(1, 2); k > 0; k-- {
		ops.Ops = append(ops.Ops, genOperatorOp(r, n))
	}
	p.Tasks = []CTask{client(), ops, client()}
	p.Order = []int{0, 1, 2}
	return p
}

func smallCfg(c Cfg) bool {
	cc := c.Config()
	return smallConfig(&cc)
}

// makeSmall cuts every list of c down (2 origins, 1 of everything else, no long strings).
func makeSmall(c Cfg) Cfg {
	c = c.clone()
	cut := func(l []string, n int) []string {
		var out []string
		for _, s := range l {
			if len(s) <= 64 && len(out) < n {
				out = append(out, s)
			}
		}
		return out
	}
	c.Origins, c.Methods, c.RequestHeaders, c.ResponseHeaders = cut(c.Origins, 2), cut(c.Methods, 1), cut(c.RequestHeaders, 1), cut(c.ResponseHeaders, 1)
	if len(c.Origins) == 0 {
		c.Origins = []string{"https://example.com"}
	}
	return c
}

func (e c07) Gen(r *R, tier string) any {
	bgDisabled = true // (the dry runs below measure schedule points: nothing else may be going on)
	allowHugeOriginLists = false
	observeUnknownAPI = true
	if r.Run%4 == 3 {
		return e.genSweep(r.Seed, r.Run/4)
	}
	if r.Run%64 == 2 {
		return e.genVolume(r)
	}
	if r.Run%64 == 6 {
		return e.genTwice(r)
	}
	p := &C07Plan{}
	n := r.Range(2, 4)
	p.Cfgs = append(p.Cfgs, genCfgX(r))
	for i := 1; i < n; i++ {
		if r.P(0.5) {
			p.Cfgs = append(p.Cfgs, varyCfg(r, p.Cfgs[r.Intn(i)]))
		} else {
			p.Cfgs = append(p.Cfgs, genCfgX(r))
		}
	}
	if sz, ok := dict.sizes.pick(r, 0.04); ok && sz > 100 {
		padOriginsTo(p.Cfgs, sz)
	}
	p.InitCfg = r.Intn(n+1) - 1
	p.InitDebug = p.InitCfg >= 0 && r.P(0.5)
	pool := discriminating(r, p.Cfgs) // once per plan: the request pool and how well each request separates the states
	nClients, nOps := r.Range(1, 3), r.Range(1, 2)
	maxReq, maxOp, preemptChoices := 4, 4, []int{0, 1, 1, 2, 2, 3, 4}
	if tier == "thorough" && r.P(0.35) { // deeper bounds in a third of the thorough runs
		nClients, nOps = r.Range(2, 4), r.Range(1, 3)
		maxReq, maxOp, preemptChoices = 6, 6, []int{1, 2, 3, 4, 5, 6, 8}
	}
	for i := 0; i < nClients; i++ {
		k := r.Range(1, maxReq)
		var t CTask
		for _, q := range pool.pick(r, k) {
			q := q
			// follow-up traffic: a third of the requests repeat an earlier request of
			// the run (same client or another one) — what a stale per-middleware cache
			// filled by an in-flight request would be observed through
			if prev := allReqs(p.Tasks, t); len(prev) > 0 && r.P(0.33) {
				q = prev[r.Intn(len(prev))]
			}
			op := COp{Kind: "req", Req: &q}
			if r.P(0.3) {
				for j := r.Range(1, 2); j > 0; j-- {
					op.Reent = append(op.Reent, ReentOp{Seam: pick(r, []string{"header", "writeheader", "handler"}), Op: genOperatorOp(r, n)})
				}
			}
			t.Ops = append(t.Ops, op)
		}
		p.Tasks = append(p.Tasks, t)
	}
	for i := 0; i < nOps; i++ {
		k := r.Range(1, maxOp)
		var t CTask
		for j := 0; j < k; j++ {
			t.Ops = append(t.Ops, genOperatorOp(r, n))
		}
		p.Tasks = append(p.Tasks, t)
	}
	p.Order = r.Perm(len(p.Tasks))
	// dry sequential pass: measure the schedule points of every operation
	counts, classes := dryRun(p)
	d := pick(r, preemptChoices)
	for i := 0; i < d; i++ {
		var vt int
		if r.P(0.55) {
			vt = r.Intn(nClients)
		} else {
			vt = nClients + r.Intn(nOps)
		}
		vo := r.Intn(len(p.Tasks[vt].Ops))
		ny := counts[vt][vo]
		if ny == 0 {
			continue
		}
		y := r.Intn(ny)
		if r.P(0.5) { // bias towards lock-adjacent and Middleware-method schedule points
			var hot []int
			for k, cl := range classes[vt][vo] {
				if cl == "lock" || cl == "mw" || cl == "seam" {
					hot = append(hot, k)
				}
			}
			if len(hot) > 0 {
				y = pick(r, hot)
			}
		}
		to := r.Intn(len(p.Tasks))
		if to == vt {
			to = (to + 1) % len(p.Tasks)
		}
		if to == vt {
			continue
		}
		p.Preempts = append(p.Preempts, Preempt{Task: vt, Op: vo, Yield: y, To: to, Burst: pick(r, []int{1, 1, 2, 2, 3})})
	}
	return p
}

func allReqs(tasks []CTask, cur CTask) []Req {
	var out []Req
	for _, t := range append(append([]CTask{}, tasks...), cur) {
		for _, op := range t.Ops {
			if op.Req != nil {
				out = append(out, *op.Req)
			}
		}
	}
	return out
}

func (c07) Decode(b []byte) (any, error) {
	var p C07Plan
	err := json.Unmarshal(b, &p)
	return &p, err
}

// ---------------------------------------------------------------- scheduler

type evKind int

const (
	evPreempt evKind = iota
	evBlocked
	evOpDone
	evDone
)

type event struct {
	kind  evKind
	to    int
	burst int
}

// curGoid: the id of the calling goroutine (parsed from its stack header; only used when the
// tree under test starts goroutines of its own).
func curGoid() int64 {
	var buf [40]byte
	n := runtime.Stack(buf[:], false)
	var id int64
	for _, c := range buf[len("goroutine "):n] {
		if c < '0' || c > '9' {
			break
		}
		id = id*10 + int64(c-'0')
	}
	return id
}

// mine: is the caller this task's goroutine? Asked at every hook when the tree starts
// goroutines of its own. The goroutine id costs a traceback, so the address of a local
// variable is looked at first: within 16 KB of where this task was last seen it is taken to
// be the task's own stack; anything else is settled by the id (a stack moves when it grows).
func (t *ctask) mine() bool { return mineAt(&t.lastSP, t.goid) }

func mineAt(last *uintptr, goid int64) bool {
	var probe byte
	sp := uintptr(unsafe.Pointer(&probe))
	d := sp - *last
	if sp < *last {
		d = *last - sp
	}
	if d < 16<<10 {
		return true
	}
	if curGoid() != goid {
		return false
	}
	*last = sp
	return true
}

type ctask struct {
	lastSP    uintptr
	goid      int64
	id        int
	wake      chan struct{}
	done      bool
	blocked   bool
	blockedAt int64 // release generation when it blocked
	opIdx     int
	yieldInOp int
	relSeen   bool // this op has released a lock (for a request: its snapshot is taken)
	seamSeen  bool // this op has reached a simulator-owned seam (writer or handler)
}

type frame struct {
	task     int
	opsLeft  int
	returnTo int
}

type histOp struct {
	Task   int
	Kind   string
	Input  string
	Output string
	Call   int64
	Ret    int64
}

type sched struct {
	p        *C07Plan
	c        *Ctx
	tasks    []*ctask
	cur      int
	ctl      chan event
	stack    []frame
	preempts map[[3]int]Preempt
	seq      int64 // global event sequence: the only clock
	relGen   int64 // incremented by every Released()
	yields   int64
	hist     []histOp
	sig      uint64
	panics   []string
	deadlock string
	m        *cors.Middleware
	switches int
	inCrit   map[int]bool
	wrapped  []http.Handler // per task: handler wrapped once in the initial state
	inner    []*delegateH
	onceBusy map[*sync.Once]bool
	shared   http.Handler   // one handler wrapped once, used by all tasks
	curInner []http.Handler // per task: what the shared handler's inner handler is while that task runs
	// dry-run measurement
	measure bool
	counts  [][]int
	classes [][][]string
}

const yieldCap = 50_000_000

func (s *sched) mix(task int, label string) {
	h := fnv.New64a()
	fmt.Fprintf(h, "%d|%d|%s", s.sig, task, label)
	s.sig = h.Sum64()
}

// yield is the schedule point (called on the running task's goroutine).
func (s *sched) yield(label, class string) {
	t := s.tasks[s.cur]
	if simrt.TreeStartsGoroutines && !t.mine() {
		return // a goroutine the library started: it runs free
	}
	s.yields++
	if s.yields > yieldCap {
		fatal2("watchdog: more than %d schedule points in one run (livelock?) plan=%s", yieldCap, clip(string(planJSON(s.p)), 3000))
	}
	y := t.yieldInOp
	t.yieldInOp++
	if strings.HasPrefix(label, "seam:") {
		t.seamSeen = true
	}
	if s.measure {
		s.counts[t.id][t.opIdx]++
		s.classes[t.id][t.opIdx] = append(s.classes[t.id][t.opIdx], class)
		return
	}
	pr, ok := s.preempts[[3]int{t.id, t.opIdx, y}]
	if !ok {
		return
	}
	if pr.To == t.id || pr.To >= len(s.tasks) || s.tasks[pr.To].done || s.tasks[pr.To].blocked {
		return
	}
	s.c.hit("F3_preemption_fired")
	if class == "mw" && t.relSeen && !t.seamSeen && s.p.Tasks[t.id].Ops[t.opIdx].Kind == "req" {
		s.c.hit("preempt_between_snapshot_and_dispatch")
	}
	if s.inCrit[t.id] {
		s.c.hit("writer_preempted_in_critical_section")
	}
	s.c.logf("t%d preempted at %s (op %d, point %d) -> t%d x%d", t.id, label, t.opIdx, y, pr.To, pr.Burst)
	s.mix(t.id, label)
	s.handoff(event{kind: evPreempt, to: pr.To, burst: pr.Burst})
}

// handoff gives the baton to the controller and parks until woken again.
func (s *sched) handoff(ev event) {
	t := s.tasks[s.cur]
	s.ctl <- ev
	<-t.wake
}

func (s *sched) acquire(try func() bool, label string) {
	t := s.tasks[s.cur]
	if simrt.TreeStartsGoroutines && !t.mine() {
		for !try() { // a goroutine the library started: it waits for the lock like anybody else
			runtime.Gosched()
		}
		return
	}
	for !try() {
		s.c.hit("acquire_parked")
		s.c.logf("t%d parks on lock at %s", t.id, label)
		t.blocked = true
		t.blockedAt = s.relGen
		s.mix(t.id, "park:"+label)
		s.handoff(event{kind: evBlocked})
	}
	s.inCrit[t.id] = true
	s.c.hit("lock_acquired")
}

func (s *sched) released() {
	if simrt.TreeStartsGoroutines && !s.tasks[s.cur].mine() {
		return
	}
	s.relGen++
	s.inCrit[s.cur] = false
	s.tasks[s.cur].relSeen = true
	if t := s.tasks[s.cur]; t.opIdx < len(s.p.Tasks[t.id].Ops) && s.p.Tasks[t.id].Ops[t.opIdx].Kind == "req" && !t.seamSeen && !bg.busy {
		s.c.hit("request_released_a_lock") // before its first seam: the request's own snapshot, not a re-entrant operator call
	}
	for _, t := range s.tasks {
		if t.blocked {
			t.blocked = false
		}
	}
}

// pickDefault returns the first runnable task in the plan's default order.
func (s *sched) pickDefault() int {
	for _, id := range s.p.Order {
		if id < len(s.tasks) && !s.tasks[id].done && !s.tasks[id].blocked {
			return id
		}
	}
	for id, t := range s.tasks { // tasks missing from Order (after shrinking)
		if !t.done && !t.blocked {
			return id
		}
	}
	return -1
}

// control runs on the main goroutine: wakes the chosen task, waits for the
// baton to come back, decides who is next.
func (s *sched) control() {
	next := s.pickDefault()
	for next >= 0 {
		if next != s.cur {
			s.switches++
		}
		s.cur = next
		s.tasks[next].wake <- struct{}{}
		ev := <-s.ctl
		t := s.tasks[s.cur]
		switch ev.kind {
		case evPreempt:
			s.stack = append(s.stack, frame{task: ev.to, opsLeft: ev.burst, returnTo: t.id})
			next = ev.to
		case evOpDone:
			next = t.id
			if n := len(s.stack); n > 0 && s.stack[n-1].task == t.id {
				s.stack[n-1].opsLeft--
				if s.stack[n-1].opsLeft <= 0 {
					next = s.popTo()
				}
			}
		case evBlocked, evDone:
			if ev.kind == evDone {
				t.done = true
			}
			if n := len(s.stack); n > 0 && s.stack[n-1].task == t.id {
				next = s.popTo()
			} else {
				next = s.pickDefault()
			}
		}
		if next >= 0 && (s.tasks[next].done || s.tasks[next].blocked) {
			next = s.pickDefault()
		}
	}
	for _, t := range s.tasks {
		if !t.done {
			var who []string
			for _, u := range s.tasks {
				if !u.done {
					who = append(who, fmt.Sprintf("t%d(op %d)", u.id, u.opIdx))
				}
			}
			s.deadlock = "every live task is parked on a lock that is never released: " + strings.Join(who, ", ")
			return
		}
	}
}

func (s *sched) popTo() int {
	n := len(s.stack)
	ret := s.stack[n-1].returnTo
	s.stack = s.stack[:n-1]
	if !s.tasks[ret].done && !s.tasks[ret].blocked {
		return ret
	}
	return s.pickDefault()
}

// ---------------------------------------------------------------- operations

func cfgKey(c *Cfg) string {
	if c == nil {
		return "nil"
	}
	return c.String()
}

func errStr(err error) string {
	if err == nil {
		return "ok"
	}
	return "error"
}

// doOp executes one operator operation on m, recording it in the history.
func (s *sched) doOp(task int, op COp) {
	rec := func(kind, input string, f func() string) {
		betweenSteps("an operator call")
		h := histOp{Task: task, Kind: kind, Input: input}
		s.seq++
		h.Call = s.seq
		s.mix(task, "call:"+kind)
		pan := catch(func() { h.Output = f() })
		if pan != "" {
			h.Output = "PANIC " + pan
			s.panics = append(s.panics, fmt.Sprintf("%s(%s): %s", kind, input, pan))
		}
		s.seq++
		h.Ret = s.seq
		s.mix(task, "ret:"+kind)
		s.hist = append(s.hist, h)
		s.c.logf("t%d %s %s -> %s [%d,%d]", task, kind, clip(input, 90), clip(h.Output, 120), h.Call, h.Ret)
	}
	if op.Rep > 512 && (op.Kind == "reconf" || op.Kind == "reconf_invalid" || op.Kind == "restore") {
		op.Rep = 512 // (long series only of the cheap calls)
	}
	if op.Rep > 1 && len(s.p.Preempts) == 0 {
		// volume: the call is made op.Rep-1 times here and once more, recorded, below
		s.c.hit("F15_operator_call_repeated")
		once := op
		once.Rep = 0
		saved, savedSeq := s.hist, s.seq
		quiet := s.c.keepLog
		s.c.keepLog = false
		for i := 1; i < op.Rep; i++ {
			s.doOp(task, once)
			s.hist, s.seq = saved, savedSeq
		}
		s.c.keepLog = quiet
		s.c.logf("t%d %s made %d times in a row", task, op.Kind, op.Rep)
	}
	switch op.Kind {
	case "reconf", "reconf_invalid":
		cfg := s.p.Cfgs[op.Cfg%len(s.p.Cfgs)]
		if op.Kind == "reconf_invalid" {
			cfg = plantAll(cfg, op.Planted)
			s.c.hit("F1_rejected_reconfigure")
		}
		rec("reconf", cfg.String(), func() string { cc := cfg.Config(); return errStr(reconfN(s.m, &cc)) })
	case "reconf_nil":
		rec("reconf", "nil", func() string { return errStr(reconfN(s.m, nil)) })
	case "setdebug":
		rec("setdebug", fmt.Sprint(op.Debug), func() string { setDebugN(s.m, op.Debug); return "" })
	case "config":
		rec("config", "", func() string { return cfgKey(fromConfig(s.m.Config())) })
	case "restore":
		s.c.hit("F2_restore")
		var got *cors.Config
		rec("config", "", func() string { got = s.m.Config(); return cfgKey(fromConfig(got)) })
		rec("reconf", cfgKey(fromConfig(got)), func() string { return errStr(reconfN(s.m, got)) })
	}
}

func clip(s string, n int) string {
	if len(s) > n {
		return s[:n] + "..."
	}
	return s
}

type delegateH struct{ h http.Handler }

func (d *delegateH) ServeHTTP(w http.ResponseWriter, r *http.Request) { d.h.ServeHTTP(w, r) }

// seamHandler is the wrapped handler: a schedule point and re-entrant calls.
type seamHandler struct {
	s     *sched
	task  int
	reent []ReentOp
	n     *int
	note  *string
}

func (h seamHandler) ServeHTTP(w http.ResponseWriter, _ *http.Request) {
	*h.n++
	if _, ok := w.(harnessWriter); !ok {
		*h.note = fmt.Sprintf("handler-got-a-replacement-writer(%T)", w)
	}
	h.s.yield("seam:handler", "seam")
	for _, re := range h.reent {
		if re.Seam == "handler" {
			h.s.c.hit("F3_reentrant_at_handler")
			h.s.doOp(h.task, re.Op)
		}
	}
	w.WriteHeader(200)
	w.Write([]byte("ok"))
}

func (s *sched) doReq(task int, op COp) {
	q := *op.Req
	betweenSteps("a request")
	h := histOp{Task: task, Kind: "req", Input: q.String()}
	if len(s.p.Preempts) > 0 {
		op.Twice = false // (only in sequential plans: each application reads the state for itself)
	}
	if op.Twice {
		h.Kind = "req2"
	}
	s.seq++
	h.Call = s.seq
	s.mix(task, "call:req")
	w := newRec(nil)
	w.outerAppends = q.Shape%nShapes == 9
	doneH, doneWH := false, false
	w.onHeader = func() {
		s.yield("seam:header", "seam")
		if doneH {
			return
		}
		doneH = true
		for _, re := range op.Reent {
			if re.Seam == "header" {
				s.c.hit("F3_reentrant_at_header")
				s.doOp(task, re.Op)
			}
		}
	}
	w.onWH = func(int) {
		s.yield("seam:writeheader", "seam")
		if doneWH {
			return
		}
		doneWH = true
		for _, re := range op.Reent {
			if re.Seam == "writeheader" {
				s.c.hit("F3_reentrant_at_writeheader")
				s.doOp(task, re.Op)
			}
		}
	}
	invoked := 0
	wnote := ""
	var resp Resp
	pan := catch(func() {
		// odd requests of a task go through the task's long-lived wrapped handler
		// (Wrap called once, before the run started), even ones through a fresh Wrap
		inner := seamHandler{s, task, op.Reent, &invoked, &wnote}
		switch t := s.tasks[task]; {
		case op.Twice:
			s.c.hit("F17_same_middleware_applied_twice")
			between := http.HandlerFunc(func(w2 http.ResponseWriter, r2 *http.Request) {
				s.yield("seam:between", "seam")
				for _, re := range op.Reent {
					if re.Seam == "between" {
						s.doOp(task, re.Op)
					}
				}
				s.m.Wrap(inner).ServeHTTP(w2, r2)
			})
			s.m.Wrap(between).ServeHTTP(w, q.build())
		case t.opIdx%3 == 1 && s.wrapped[task] != nil:
			s.inner[task].h = inner
			s.wrapped[task].ServeHTTP(w, q.build())
		case t.opIdx%3 == 2 && s.shared != nil:
			// ONE handler wrapped before the run started serves requests of every task, as a
			// server's does (whatever it may remember between two requests is remembered
			// across everything the other tasks did in between)
			s.curInner[task] = inner
			s.shared.ServeHTTP(w, q.build())
		default:
			s.m.Wrap(inner).ServeHTTP(w, q.build())
		}
	})
	if pan != "" {
		resp = Resp{Panic: pan}
		s.panics = append(s.panics, fmt.Sprintf("request %s: %s", q, pan))
	} else {
		fp := w.snapFP
		if !w.snapped {
			fp = headerFP(w.h)
		}
		resp = Resp{Status: w.status, Headers: fp, Body: string(w.body), Handler: invoked, WH: w.extraWH(), W: wnote}
	}
	h.Output = resp.String()
	s.seq++
	h.Ret = s.seq
	s.mix(task, "ret:req")
	s.hist = append(s.hist, h)
	s.c.logf("t%d req %s -> %s [%d,%d]", task, clip(q.String(), 100), clip(h.Output, 140), h.Call, h.Ret)
}

func (s *sched) runTask(t *ctask) {
	if simrt.TreeStartsGoroutines {
		t.goid = curGoid()
	}
	<-t.wake
	for i, op := range s.p.Tasks[t.id].Ops {
		t.opIdx, t.yieldInOp, t.relSeen, t.seamSeen = i, 0, false, false
		s.yield("op-start", "seam") // schedule point 0 of every operation: before it starts
		if op.Kind == "req" && op.Req != nil {
			s.doReq(t.id, op)
		} else {
			s.doOp(t.id, op)
		}
		if i < len(s.p.Tasks[t.id].Ops)-1 && !s.measure {
			s.handoff(event{kind: evOpDone})
		}
	}
	if s.measure {
		t.done = true
		s.ctl <- event{kind: evDone}
		return
	}
	s.ctl <- event{kind: evDone}
}

func newInitMW(p *C07Plan) (*cors.Middleware, bool) {
	if p.InitCfg < 0 || p.InitCfg >= len(p.Cfgs) {
		return zeroMW(), true
	}
	m, err, pan := newMW(p.Cfgs[p.InitCfg])
	if err != nil || pan != nil {
		return nil, false
	}
	m.SetDebug(p.InitDebug)
	return m, true
}

func setHooks(s *sched) {
	if s == nil {
		simrt.YieldHook, simrt.AcquireHook, simrt.ReleasedHook, simrt.OnceHook = nil, nil, nil, nil
		return
	}
	simrt.YieldHook = s.yield
	simrt.AcquireHook = s.acquire
	simrt.ReleasedHook = s.released
	simrt.OnceHook = s.onceDo
}

// onceDo: sync.Once.Do of the library. While one task is inside f (possibly preempted there),
// another caller parks in the scheduler - in the Go runtime it would block with the baton in
// hand. The real Once still decides whether f runs at all.
func (s *sched) onceDo(o *sync.Once, f func()) {
	t := s.tasks[s.cur]
	if simrt.TreeStartsGoroutines && !t.mine() {
		o.Do(f)
		return
	}
	for s.onceBusy[o] {
		s.c.hit("once_parked")
		t.blocked = true
		s.mix(t.id, "park:once")
		s.handoff(event{kind: evBlocked})
	}
	s.onceBusy[o] = true
	defer func() {
		delete(s.onceBusy, o)
		for _, u := range s.tasks {
			u.blocked = false
		}
	}()
	o.Do(f)
}

func newSched(p *C07Plan, c *Ctx, measure bool) (*sched, bool) {
	m, ok := newInitMW(p)
	if !ok {
		return nil, false
	}
	s := &sched{p: p, c: c, m: m, ctl: make(chan event), preempts: map[[3]int]Preempt{}, measure: measure, inCrit: map[int]bool{}, onceBusy: map[*sync.Once]bool{}}
	for _, pr := range p.Preempts {
		s.preempts[[3]int{pr.Task, pr.Op, pr.Yield}] = pr
	}
	for i := range p.Tasks {
		d := &delegateH{}
		s.inner = append(s.inner, d)
		s.wrapped = append(s.wrapped, m.Wrap(d))
		s.tasks = append(s.tasks, &ctask{id: i, wake: make(chan struct{})})
		s.counts = append(s.counts, make([]int, len(p.Tasks[i].Ops)))
		s.classes = append(s.classes, make([][]string, len(p.Tasks[i].Ops)))
	}
	s.curInner = make([]http.Handler, len(p.Tasks))
	s.shared = m.Wrap(http.HandlerFunc(func(w http.ResponseWriter, r *http.Request) { s.curInner[s.cur].ServeHTTP(w, r) }))
	return s, true
}

// dryRun executes the plan without preemptions and returns, per operation,
// the number of schedule points and their classes.
func dryRun(p *C07Plan) ([][]int, [][][]string) {
	q := *p
	q.Preempts = nil
	s, ok := newSched(&q, newCtx(false), true)
	if !ok {
		z := make([][]int, len(p.Tasks))
		zc := make([][][]string, len(p.Tasks))
		for i := range z {
			z[i] = make([]int, len(p.Tasks[i].Ops))
			zc[i] = make([][]string, len(p.Tasks[i].Ops))
		}
		return z, zc
	}
	s.run()
	return s.counts, s.classes
}

func (s *sched) run() {
	if len(s.tasks) == 0 {
		return
	}
	setHooks(s)
	defer setHooks(nil)
	for _, t := range s.tasks {
		go s.runTask(t)
	}
	s.control()
}

// ---------------------------------------------------------------- the oracle

type refModel struct {
	p     *C07Plan
	mws   map[string]*cors.Middleware // mutator sequence -> sequential middleware
	srvs  map[string]*mwServer
	cache map[string]string
	// seqMismatch: the sequential reference itself disagrees with a FRESH middleware of the
	// state the documentation says the mutator sequence leads to (first finding)
	seqMismatch string
	twinChecked map[string]bool
}

// docState folds a mutator sequence with the documented state machine (creation: the
// plan's initial state; SetDebug(b) sets b iff configured; Reconfigure(nil): passthrough,
// debug off; an ACCEPTED Reconfigure(c) installs c and keeps debug; a rejected one changes
// nothing). Acceptance is decided by NewMiddleware(c), not by Reconfigure.
func (r *refModel) docState(state string) (cfg *Cfg, debug bool) {
	if r.p.InitCfg >= 0 && r.p.InitCfg < len(r.p.Cfgs) {
		c := r.p.Cfgs[r.p.InitCfg]
		cfg, debug = &c, r.p.InitDebug
	}
	if state == "" {
		return
	}
	for _, op := range strings.Split(strings.TrimSuffix(state, "\x1e"), "\x1e") {
		kind, input, _ := strings.Cut(op, "\x1f")
		switch kind {
		case "setdebug":
			if cfg != nil {
				debug = input == "true"
			}
		case "reconf":
			if input == "nil" {
				cfg, debug = nil, false
				continue
			}
			var c Cfg
			if json.Unmarshal([]byte(input), &c) != nil {
				continue
			}
			if m, err, pan := newMW(c); m != nil && err == nil && pan == nil {
				cfg = &c
			}
		}
	}
	return
}

// twinCheck compares the sequential reference at `state` with a fresh middleware
// in docState(state), over the run's requests and Config(): a Reconfigure that is
// silently dropped, or that leaves anything of the previous configuration behind,
// makes every later response one of a state that was never current.
func (r *refModel) twinCheck(state string) {
	if r.seqMismatch != "" || r.twinChecked[state] {
		return
	}
	r.twinChecked[state] = true
	cfg, debug := r.docState(state)
	twin := zeroMW()
	if cfg != nil {
		m, err, pan := newMW(*cfg)
		if m == nil || err != nil || pan != nil {
			return
		}
		m.SetDebug(debug)
		twin = m
	}
	ref := r.at(state)
	if a, b := cfgKey(fromConfig(ref.Config())), cfgKey(fromConfig(twin.Config())); a != b {
		r.seqMismatch = fmt.Sprintf("after the mutator sequence %q, applied sequentially, Config() is %s; a fresh middleware in the documented resulting state (debug=%v) reports %s", strings.ReplaceAll(strings.ReplaceAll(state, "\x1e", " ; "), "\x1f", " "), a, debug, b)
		return
	}
	ts := newServer(twin.Wrap)
	keys := make([]string, 0, len(reqTable))
	for k := range reqTable {
		keys = append(keys, k)
	}
	sort.Strings(keys)
	for _, k := range keys {
		q := reqTable[k]
		if a, b := r.srvs[state].do(q).String(), ts.do(q).String(); a != b {
			r.seqMismatch = fmt.Sprintf("after the mutator sequence %q, applied sequentially, %s is answered %s; a fresh middleware in the documented resulting state (debug=%v) answers %s", strings.ReplaceAll(strings.ReplaceAll(state, "\x1e", " ; "), "\x1f", " "), q, a, debug, b)
			return
		}
	}
}

func (r *refModel) at(state string) *cors.Middleware {
	if m, ok := r.mws[state]; ok {
		return m
	}
	m, _ := newInitMW(r.p)
	if state != "" {
		for _, op := range strings.Split(strings.TrimSuffix(state, "\x1e"), "\x1e") {
			applyMutator(m, op)
		}
	}
	r.mws[state] = m
	r.srvs[state] = newServer(m.Wrap)
	return m
}

func applyMutator(m *cors.Middleware, enc string) string {
	kind, input, _ := strings.Cut(enc, "\x1f")
	out := ""
	pan := catch(func() {
		switch kind {
		case "setdebug":
			m.SetDebug(input == "true")
		case "reconf":
			if input == "nil" {
				out = errStr(m.Reconfigure(nil))
				return
			}
			var c Cfg
			if err := json.Unmarshal([]byte(input), &c); err != nil {
				panic("harness: bad cfg key " + input)
			}
			cc := c.Config()
			out = errStr(m.Reconfigure(&cc))
		}
	})
	if pan != "" {
		return "PANIC " + pan
	}
	return out
}

func (r *refModel) step(state string, h histOp) (bool, string) {
	switch h.Kind {
	case "req2": // the same middleware applied twice
		key := state + "\x1d2\x1d" + h.Input
		want, ok := r.cache[key]
		if !ok {
			m := r.at(state)
			srv := newServer(func(hh http.Handler) http.Handler { return m.Wrap(m.Wrap(hh)) })
			want = srv.do(reqTable[h.Input]).String()
			r.cache[key] = want
		}
		return want == h.Output, state
	case "req":
		key := state + "\x1d" + h.Input
		want, ok := r.cache[key]
		if !ok {
			r.at(state)
			var q Req
			// the input is the printed request; the request itself is found via the op table
			q = reqTable[h.Input]
			want = r.srvs[state].do(q).String()
			r.cache[key] = want
		}
		return want == h.Output, state
	case "config":
		key := state + "\x1dconfig"
		want, ok := r.cache[key]
		if !ok {
			want = cfgKey(fromConfig(r.at(state).Config()))
			r.cache[key] = want
		}
		return want == h.Output, state
	default: // mutators: the new state is the old one plus this call
		enc := h.Kind + "\x1f" + h.Input
		ns := state + enc + "\x1e"
		key := ns + "\x1dresult"
		want, ok := r.cache[key]
		if !ok {
			// result of the call when applied sequentially after `state`
			m, _ := newInitMW(r.p)
			if state != "" {
				for _, op := range strings.Split(strings.TrimSuffix(state, "\x1e"), "\x1e") {
					applyMutator(m, op)
				}
			}
			want = applyMutator(m, enc)
			r.mws[ns] = m
			r.srvs[ns] = newServer(m.Wrap)
			r.cache[key] = want
			r.twinCheck(ns)
		}
		return want == h.Output, ns
	}
}

// reqTable maps printed requests back to data for the reference model (filled per run).
var reqTable map[string]Req

func (e c07) Exec(plan any, c *Ctx) *Violation {
	observeUnknownAPI = true
	p := plan.(*C07Plan)
	// background activity (background.go) only in runs without preemptions and re-entrant
	// calls: there every operation is atomic, so repeating it is a no-op by the documentation
	for _, t := range p.Tasks {
		for _, op := range t.Ops {
			if len(op.Reent) > 0 {
				bgDisabled = true
			}
		}
	}
	if len(p.Preempts) > 0 {
		bgDisabled = true
	}
	bg.vol = false // series of operator calls are written down in the volume plans (genVolume); every call here costs hundreds of schedule points
	bg.bigLeft = 0 // ... and no five-digit request soak either (66000 requests are tens of millions of schedule points)
	bg.soakCap = 600
	for _, t := range p.Tasks {
		for _, op := range t.Ops {
			if op.Rep > 1 { // a volume plan has its series written down: no further ones on top
				bgDisabled = true
			}
		}
	}
	s, ok := newSched(p, c, false)
	if !ok {
		c.hit("generator_rejected")
		return nil
	}
	s.run()
	c.Sig = s.sig
	reent := false
	for _, t := range p.Tasks {
		for _, op := range t.Ops {
			if len(op.Reent) > 0 {
				reent = true
			}
		}
	}
	c.Nontrivial = c.Stats["F3_preemption_fired"] > 0 || reent
	if p.Sweep {
		c.hit("sweep_runs_enumerating_every_schedule_point_of_a_victim_operation")
	}
	if len(s.panics) > 0 {
		return &Violation{Class: "panic", Key: "concurrent", Detail: "panic under a schedule the sequential code never panics under: " + strings.Join(s.panics, "; ")}
	}
	if s.deadlock != "" {
		return &Violation{Class: "deadlock", Key: "deadlock", Detail: s.deadlock}
	}
	// reach probes over the history
	for _, h := range s.hist {
		if h.Kind != "req" {
			continue
		}
		changes, rejected, flip := 0, false, false
		for _, g := range s.hist {
			if g.Call > h.Call && g.Ret < h.Ret && (g.Kind == "reconf" || g.Kind == "setdebug") {
				if g.Output == "error" {
					rejected = true
					continue
				}
				changes++
				if g.Kind == "reconf" && g.Input == "nil" {
					flip = true
				}
			}
		}
		if changes >= 1 {
			c.hit("req_overlapped_1_state_change")
		}
		if changes >= 2 {
			c.hit("req_overlapped_2_state_changes")
		}
		if rejected {
			c.hit("rejected_reconfigure_overlapped_request")
		}
		if flip {
			c.hit("passthrough_flip_during_request")
		}
	}
	// linearizability against the sequential real code
	reqTable = map[string]Req{}
	for _, t := range p.Tasks {
		for _, op := range t.Ops {
			if op.Req != nil {
				reqTable[op.Req.String()] = *op.Req
			}
		}
	}
	ref := &refModel{p: p, mws: map[string]*cors.Middleware{}, srvs: map[string]*mwServer{}, cache: map[string]string{}, twinChecked: map[string]bool{}}
	model := porcupine.Model{
		Init: func() interface{} { return "" },
		Step: func(state, input, output interface{}) (bool, interface{}) {
			h := input.(histOp)
			ok, ns := ref.step(state.(string), h)
			return ok, ns
		},
		Equal: func(a, b interface{}) bool { return a.(string) == b.(string) },
	}
	var ops []porcupine.Operation
	for _, h := range s.hist {
		ops = append(ops, porcupine.Operation{ClientId: h.Task, Input: h, Output: h.Output, Call: h.Call, Return: h.Ret})
	}
	c.hit("histories_checked")
	res := porcupine.CheckOperationsTimeout(model, ops, 20*time.Second)
	if ref.seqMismatch != "" {
		c.hit("sequential_reference_vs_fresh_twin_mismatch")
		return &Violation{Class: "state-never-current", Key: "sequential", Detail: "the state the calls lead to is not the state the documentation says (so every later response is that of a state that was never current): " + ref.seqMismatch}
	}
	c.hit("sequential_reference_checked_against_fresh_twins")
	switch res {
	case porcupine.Ok:
		c.hit("porcupine_ok")
		return nil
	case porcupine.Unknown:
		c.hit("porcupine_unknown_inconclusive")
		return nil
	}
	// Illegal: describe the history
	var sb strings.Builder
	hs := append([]histOp{}, s.hist...)
	sort.Slice(hs, func(i, j int) bool { return hs[i].Call < hs[j].Call })
	for _, h := range hs {
		fmt.Fprintf(&sb, "\n    [%d,%d] t%d %s(%s) -> %s", h.Call, h.Ret, h.Task, h.Kind, clip(h.Input, 160), clip(h.Output, 200))
	}
	return &Violation{Class: "not-linearizable", Key: "history",
		Detail: fmt.Sprintf("no sequential order of these operations (respecting real-time order) reproduces the observed outputs with the sequential code; init cfg=%d debug=%v:%s", p.InitCfg, p.InitDebug, sb.String())}
}

// ---------------------------------------------------------------- shrinking

func (c07) Shrink(plan any) []any {
	p := plan.(*C07Plan)
	var out []any
	cp := func() *C07Plan {
		q := *p
		q.Tasks = make([]CTask, len(p.Tasks))
		for i, t := range p.Tasks {
			q.Tasks[i].Ops = append([]COp{}, t.Ops...)
		}
		q.Preempts = append([]Preempt{}, p.Preempts...)
		q.Order = append([]int{}, p.Order...)
		return &q
	}
	// a single call instead of a series
	for ti, t := range p.Tasks {
		for oi, op := range t.Ops {
			if op.Rep > 1 {
				q := cp()
				q.Tasks[ti].Ops[oi].Rep = 0
				out = append(out, q)
			}
		}
	}
	// drop preemptions
	for i := range p.Preempts {
		q := cp()
		q.Preempts = append(q.Preempts[:i], q.Preempts[i+1:]...)
		out = append(out, q)
	}
	// drop a whole task that no preemption refers to (indices above it shift down)
	for ti := len(p.Tasks) - 1; ti >= 0 && len(p.Tasks) > 1; ti-- {
		used := false
		for _, pr := range p.Preempts {
			if pr.Task == ti || pr.To == ti {
				used = true
			}
		}
		if used {
			continue
		}
		q := cp()
		q.Tasks = append(q.Tasks[:ti], q.Tasks[ti+1:]...)
		var ord []int
		for _, o := range q.Order {
			switch {
			case o == ti:
			case o > ti:
				ord = append(ord, o-1)
			default:
				ord = append(ord, o)
			}
		}
		q.Order = ord
		for k := range q.Preempts {
			if q.Preempts[k].Task > ti {
				q.Preempts[k].Task--
			}
			if q.Preempts[k].To > ti {
				q.Preempts[k].To--
			}
		}
		out = append(out, q)
	}
	// drop one operation that no preemption refers to (later operation indices of that task shift down)
	for ti, t := range p.Tasks {
		for oi := len(t.Ops) - 1; oi >= 0 && len(t.Ops) > 1; oi-- {
			used := false
			for _, pr := range p.Preempts {
				if pr.Task == ti && pr.Op == oi {
					used = true
				}
			}
			if used {
				continue
			}
			q := cp()
			q.Tasks[ti].Ops = append(append([]COp{}, t.Ops[:oi]...), t.Ops[oi+1:]...)
			for k := range q.Preempts {
				if q.Preempts[k].Task == ti && q.Preempts[k].Op > oi {
					q.Preempts[k].Op--
				}
			}
			out = append(out, q)
		}
	}
	// drop re-entrant ops; simplify ops
	for ti, t := range p.Tasks {
		for oi, op := range t.Ops {
			for ri := range op.Reent {
				q := cp()
				o := q.Tasks[ti].Ops[oi]
				o.Reent = append(append([]ReentOp{}, op.Reent[:ri]...), op.Reent[ri+1:]...)
				q.Tasks[ti].Ops[oi] = o
				out = append(out, q)
			}
			if op.Kind == "restore" || op.Kind == "reconf_invalid" {
				q := cp()
				q.Tasks[ti].Ops[oi] = COp{Kind: "config"}
				out = append(out, q)
			}
		}
	}
	// smaller bursts
	for i, pr := range p.Preempts {
		if pr.Burst > 1 {
			q := cp()
			q.Preempts[i].Burst = pr.Burst - 1
			out = append(out, q)
		}
	}
	if p.InitDebug {
		q := cp()
		q.InitDebug = false
		out = append(out, q)
	}
	// drop an unused trailing configuration
	if n := len(p.Cfgs); n > 1 {
		used := p.InitCfg == n-1
		for _, t := range p.Tasks {
			for _, op := range t.Ops {
				if (op.Kind == "reconf" || op.Kind == "reconf_invalid") && op.Cfg%n == n-1 {
					used = true
				}
				for _, re := range op.Reent {
					if (re.Op.Kind == "reconf" || re.Op.Kind == "reconf_invalid") && re.Op.Cfg%n == n-1 {
						used = true
					}
				}
			}
		}
		if !used {
			q := cp()
			q.Cfgs = q.Cfgs[:n-1]
			out = append(out, q)
		}
	}
	for i, cfg := range p.Cfgs {
		for _, sc := range shrinkCfg(cfg) {
			q := cp()
			q.Cfgs = append([]Cfg{}, p.Cfgs...)
			q.Cfgs[i] = sc
			out = append(out, q)
		}
	}
	return out
}
