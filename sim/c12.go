package main

// c12.go — histsim with memory-mutation faults (F4) and duplicated/arbitrary
// request histories (F6): several middlewares alive at once; after every step
// the probe suites of ALL middlewares must equal the baseline recorded before
// any fault. Differential: the real code against its own earlier self.

import (
	"encoding/json"
	"fmt"
	"math/rand/v2"
	"net/http"
	"reflect"
	"time"

	"github.com/jub0bs/cors"
)

type C12MW struct {
	Cfg       int  `json:"cfg"`
	ViaReconf bool `json:"via_reconfigure,omitempty"` // new(Middleware)+Reconfigure(&c) instead of NewMiddleware(c)
	Debug     bool `json:"debug,omitempty"`
	ShareWith int  `json:"share_with,omitempty"` // >0: pass the very same cors.Config value (same slices) as middleware ShareWith-1
}

type C12Step struct {
	Kind  string `json:"kind"` // req | req_crash | req_lazy | req_mutating_handler | req_then_scribble_request | dup | scribble_input | scribble_config_result | keep_config_result | scribble_kept | flip_scalars | reconf_again | reconf_other | edit_passed_and_reconfigure
	MW    int    `json:"mw"`
	Req   int    `json:"req,omitempty"`   // index into the middleware's probe suite (mod len)
	Alien bool   `json:"alien,omitempty"` // take the request from ANOTHER middleware's suite
	Val   int    `json:"val,omitempty"`   // which value the scribbler writes (index into the value list, mod len)
}

type C12Plan struct {
	Cfgs  []Cfg     `json:"cfgs"`
	MWs   []C12MW   `json:"mws"`
	Steps []C12Step `json:"steps"`
	Perm  uint64    `json:"perm"`
}

type c12 struct{}

func init() { register(c12{}) }

func (c12) ID() string    { return "C12" }
func (c12) Level() string { return "exploration" }
func (c12) Rule() string {
	return "one case = 1..3 middlewares alive at once (configs possibly sharing the very same Config value) + a history of 5..40 steps mixing arbitrary requests (incl. duplicates and requests derived from other middlewares' configurations) with memory-mutation faults: scribbling over every element and the spare capacity of every slice of the Config passed in, of Config() results (immediately and kept for later), flipping scalars of a Config passed by pointer, and a wrapped handler scribbling over every request- and response-header slice it can reach; requests that die at a seam (the k-th ResponseWriter call or the wrapped handler panics, recovered by the server); the scribbler writes a sentinel or values that later requests actually carry (near-miss origins, *, true, ...); the caller also scribbles over a request after it was served, reconfigures with a fresh copy of the same configuration, reconfigures to another configuration (from then on the middleware must equal a FRESH one of that configuration) and edits the Config it passed before in place and passes the same pointer again; after every step the probe suites of all middlewares (in a plan-derived permuted order) are compared with their reference; distinct = distinct plan hash; non-trivial = at least one mutation fault fired"
}
func (c12) Budget(tier string) (int, time.Duration) {
	if tier == "thorough" {
		return 400_000, 12 * time.Minute
	}
	return 6_000, 45 * time.Second
}
func (c12) Assumptions() []string {
	return []string{
		"differential oracle: responses and Config() recorded before any fault are the reference",
		"the response to the request during which the handler scribbles is the handler's own business and is not judged",
		"an OUTER party OVERWRITING elements of a finished preflight response (which aliases package-level singletons by design) is outside the property ('wrapped handler') and is not injected; an outer layer APPENDING to the header lists of any response (http.Header.Add, what a compressing writer does) is ordinary use and is injected (Req.Shape 9)",
		"Go strings are immutable: mutation means overwriting slice elements (and spare capacity) and map entries",
	}
}
func (c12) Parties() map[string]string {
	return map[string]string{"cors.Middleware and internals": "real", "adversarial application code (caller of NewMiddleware/Reconfigure/Config, wrapped handler)": "stub (fault injector)", "clients": "stub", "ResponseWriter": "stub (recording)"}
}
func (c12) FaultKinds() []string {
	return []string{"F4_scribble_input_config", "F4_scribble_config_result", "F4_scribble_kept_config_result", "F4_flip_scalars", "F4_handler_scribbles_request_headers", "F4_handler_scribbles_response_headers", "F4_handler_mutates_header_maps", "F4_caller_scribbles_request_after_return", "F4_passed_config_edited_in_place_and_reused", "F6_duplicate_request", "F10_request_crashed_at_a_seam", "F11_head_serialised_late"}
}
func (c12) Probes() []string {
	return []string{"shared_config_value", "handler_saw_acao_alias", "alien_request", "three_middlewares", "suite_compared", "reconfigure_again_same_config", "reconfigure_to_other_config_vs_fresh", "one_element_of_the_passed_config_edited_in_place", "callers_config_memory_checked"}
}

func (c12) Gen(r *R, tier string) any {
	allowHugeOriginLists = false
	observeUnknownAPI = true
	p := &C12Plan{Perm: r.Uint64()}
	n := r.Range(1, 3)
	for i := 0; i < n; i++ {
		p.Cfgs = append(p.Cfgs, genCfgX(r))
	}
	k := r.Range(1, 3)
	for i := 0; i < k; i++ {
		mw := C12MW{Cfg: r.Intn(n), ViaReconf: r.P(0.4), Debug: r.P(0.4)}
		if i > 0 && r.P(0.3) {
			mw.ShareWith = r.Intn(i) + 1
			mw.Cfg = p.MWs[mw.ShareWith-1].Cfg
		}
		p.MWs = append(p.MWs, mw)
	}
	steps := r.Range(5, 40)
	if tier == "thorough" && r.P(0.3) {
		steps = r.Range(40, 90)
	}
	kinds := []string{"req", "req", "req_redispatch", "req_mutating_handler", "req_mutating_handler", "req_then_scribble_request", "dup", "req_crash", "req_crash", "req_lazy", "req_lazy", "scribble_input", "scribble_config_result", "keep_config_result", "scribble_kept", "flip_scalars", "reconf_again", "reconf_other", "edit_passed_and_reconfigure"}
	for i := 0; i < steps; i++ {
		p.Steps = append(p.Steps, C12Step{Kind: pick(r, kinds), MW: r.Intn(k), Req: r.Intn(1 << 16), Alien: r.P(0.2), Val: r.Intn(64)})
	}
	return p
}

func (c12) Decode(b []byte) (any, error) {
	var p C12Plan
	err := json.Unmarshal(b, &p)
	return &p, err
}

// tweakCfg returns c with ONE element of one list replaced by another valid
// value (v selects the list; 0 = unchanged): the smallest edit a caller makes to
// a Config it keeps around - same lengths, same scalars, one string differs.
func tweakCfg(c Cfg, v int) Cfg {
	d := c.clone()
	repl := func(l []string, val string) bool {
		var idx []int
		for i, x := range l {
			if x != "*" {
				idx = append(idx, i)
			}
		}
		if len(idx) == 0 {
			return false
		}
		l[idx[(v/5)%len(idx)]] = val
		return true
	}
	switch v % 5 {
	case 4:
		if !repl(d.ResponseHeaders, "X-Tweaked-Exposed") {
			repl(d.Origins, "https://tweaked.example.org")
		}
	case 1:
		repl(d.Origins, "https://tweaked.example.org")
	case 2:
		if !repl(d.Methods, "TWEAKED") {
			repl(d.Origins, "https://tweaked.example.org")
		}
	case 3:
		if !repl(d.RequestHeaders, "X-Tweaked") {
			repl(d.Origins, "https://tweaked.example.org")
		}
	}
	return d
}

// memFP fingerprints everything a caller can see of a Config it holds: the lists
// including their spare capacity, and the scalars.
func memFP(c *cors.Config) string {
	if c == nil {
		return "nil"
	}
	full := func(l []string) []string { return l[:cap(l)] }
	return fmt.Sprintf("%q|%d %q|%d %q|%d %q|%d %v %d %+v", full(c.Origins), len(c.Origins), full(c.Methods), len(c.Methods), full(c.RequestHeaders), len(c.RequestHeaders),
		full(c.ResponseHeaders), len(c.ResponseHeaders), c.Credentialed, c.MaxAgeInSeconds, c.ExtraConfig)
}

// callerMemoryIntact wraps a call that is handed pc: the library may read the
// Config it is passed, never write to it (lists, spare capacity, scalars) - the
// "caller-side mutation" of the property must be the caller's.
func callerMemoryIntact(pc *cors.Config, what string, call func()) *Violation {
	before := memFP(pc)
	call()
	if after := memFP(pc); after != before {
		return &Violation{Class: "library-wrote-into-callers-config", Key: what, Detail: fmt.Sprintf("%s: the Config value the caller passed was %s before the call and is %s after it", what, before, after)}
	}
	return nil
}

const junk = "MUTATED-BY-CALLER"

// what the scribbler writes: a sentinel in half of the cases, otherwise a value
// that later requests actually carry or that the middleware itself emits (an
// origin the configuration does not allow, `*`, `true`, a method, a header name)
var scribbleValues = []string{junk, "https://evil.test", junk, "*", junk, "true", junk, "null", "PUT", "authorization", junk, "https://example.com"}

var scribbleVal = junk // set per step from the plan; read by scribble

func scribble(s []string) int {
	s = s[:cap(s)]
	for i := range s {
		s[i] = scribbleVal
	}
	return len(s)
}

func scribbleConfig(c *cors.Config) int {
	return scribble(c.Origins) + scribble(c.Methods) + scribble(c.RequestHeaders) + scribble(c.ResponseHeaders)
}

func flipScalars(c *cors.Config) {
	c.Credentialed = !c.Credentialed
	c.MaxAgeInSeconds = 4242
	c.PreflightSuccessStatus = 299
	c.PrivateNetworkAccess = !c.PrivateNetworkAccess
	c.PrivateNetworkAccessInNoCORSModeOnly = !c.PrivateNetworkAccessInNoCORSModeOnly
	c.DangerouslyTolerateInsecureOrigins = !c.DangerouslyTolerateInsecureOrigins
	c.DangerouslyTolerateSubdomainsOfPublicSuffixes = !c.DangerouslyTolerateSubdomainsOfPublicSuffixes
}

// mutHandler is the adversarial wrapped handler.
type mutHandler struct {
	mutate   *bool
	c        *Ctx
	invoked  *int
	crash    *bool
	crashVal *any
	quiet    *bool
	redis    *func(r *http.Request) // while serving, dispatch a sub-request (req_redispatch)
}

// crashWriter panics at its at-th call (1-based; 0 = never).
type crashWriter struct {
	*recWriter
	at, n int
}

const crashWriterPanic = "ResponseWriter crashed (injected)"

func (*crashWriter) isHarnessWriter() {}

func (w *crashWriter) tick() {
	w.n++
	if w.at > 0 && w.n == w.at {
		panic(crashWriterPanic)
	}
}
func (w *crashWriter) Header() http.Header         { w.tick(); return w.recWriter.Header() }
func (w *crashWriter) WriteHeader(s int)           { w.tick(); w.recWriter.WriteHeader(s) }
func (w *crashWriter) Write(b []byte) (int, error) { w.tick(); return w.recWriter.Write(b) }

func (h mutHandler) ServeHTTP(w http.ResponseWriter, r *http.Request) {
	*h.invoked++
	noteWriter(w)
	if h.redis != nil && *h.redis != nil {
		f := *h.redis
		*h.redis = nil // (the sub-request comes through this handler too)
		f(r)
	}
	if h.quiet != nil && *h.quiet {
		w.Header().Add("Vary", "Accept-Encoding")
		w.Header().Set("X-Handler", "quiet")
		return
	}
	if h.crash != nil && *h.crash {
		w.Header().Set("X-Partial", "1")
		panic(*h.crashVal)
	}
	if *h.mutate {
		for k, vs := range r.Header {
			if scribble(vs) > 0 {
				h.c.hit("F4_handler_scribbles_request_headers")
			}
			r.Header[k] = append(vs, junk) // append in place where capacity allows
		}
		rh := w.Header()
		if _, ok := rh[hACAO]; ok {
			h.c.hit("handler_saw_acao_alias")
		}
		for k, vs := range rh {
			if scribble(vs) > 0 {
				h.c.hit("F4_handler_scribbles_response_headers")
			}
			rh[k] = append(vs, junk)
		}
		// the maps themselves: drop and inject keys (request map is the caller's, response map this response's)
		for k := range r.Header {
			delete(r.Header, k)
		}
		r.Header["Origin"] = []string{junk}
		r.Header["Access-Control-Request-Method"] = []string{junk}
		rh["X-Injected"] = []string{junk}
		h.c.hit("F4_handler_mutates_header_maps")
	}
	w.WriteHeader(200)
	w.Write([]byte("ok"))
}

type c12mw struct {
	m        *cors.Middleware
	passed   *cors.Config // the value that was passed in (shared memory with the caller)
	srv      http.Handler
	invoked  int
	redis    func(r *http.Request)
	switched bool // just switched to another configuration: the next comparison goes through the suite in order
	mutate   bool
	quiet    bool
	crashNow bool
	crashVal any
	suite    []Req
	base     []Resp
	baseCfg  *cors.Config
	kept     []*cors.Config
	cfgIdx   int // configuration currently installed (plan-level knowledge: selects suite and baseline)
	tw       int // ... in its tweaked variant tw (tweakCfg)
}

func permOf(seed uint64, salt uint64, n int) []int {
	rr := rand.New(rand.NewPCG(seed, salt))
	return rr.Perm(n)
}

func (c12) Exec(plan any, c *Ctx) *Violation {
	observeUnknownAPI = true
	p := plan.(*C12Plan)
	pokeThisRun = p.Perm%3 == 0
	mws := make([]*c12mw, len(p.MWs))
	// ---- build
	for i, spec := range p.MWs {
		x := &c12mw{}
		if spec.Cfg >= len(p.Cfgs) {
			spec.Cfg = 0
		}
		if spec.ShareWith > 0 && spec.ShareWith-1 < i {
			x.passed = mws[spec.ShareWith-1].passed
			spec.Cfg = p.MWs[spec.ShareWith-1].Cfg
			c.hit("shared_config_value")
		} else {
			cc := p.Cfgs[spec.Cfg].Config()
			x.passed = &cc
		}
		var err error
		var memV *Violation
		pan := catch(func() {
			memV = callerMemoryIntact(x.passed, "build", func() {
				if spec.ViaReconf {
					x.m = zeroMW()
					err = x.m.Reconfigure(x.passed)
				} else {
					x.m, err = mkMW(*x.passed) // copies the struct, shares the slices
				}
			})
		})
		if pan != "" {
			return &Violation{Class: "panic", Key: "build", Detail: pan}
		}
		if memV != nil {
			return memV
		}
		c.hit("callers_config_memory_checked")
		if err != nil {
			c.hit("generator_rejected")
			return nil
		}
		x.m.SetDebug(spec.Debug)
		x.srv = x.m.Wrap(mutHandler{&x.mutate, c, &x.invoked, &x.crashNow, &x.crashVal, &x.quiet, &x.redis})
		x.suite = probeSuite(p.Cfgs[spec.Cfg])
		x.cfgIdx = spec.Cfg
		mws[i] = x
	}
	if len(mws) == 3 {
		c.hit("three_middlewares")
	}
	// ---- baseline, before any fault
	for _, x := range mws {
		x.base = make([]Resp, len(x.suite))
		for j, q := range x.suite {
			x.base[j] = serveWith(x.srv, q, nil, &x.invoked)
		}
		x.baseCfg = x.m.Config()
	}
	// references for the configurations the history will switch to: recorded NOW, before
	// any fault and before any history - building them at the moment of the switch would
	// (a) disturb process-wide state between the fault and its observation and (b) let a
	// process-wide memo serve the fresh twin the very same wrong answer
	type ref struct {
		suite []Req
		base  []Resp
		cfg   *cors.Config
		ok    bool
	}
	refs := map[[3]int]*ref{}
	curIdx := make([]int, len(mws)) // which configuration each middleware will have at each step (known statically)
	for i, x := range mws {
		curIdx[i] = x.cfgIdx
	}
	for _, st := range p.Steps {
		if st.Kind != "reconf_other" && st.Kind != "edit_passed_and_reconfigure" {
			continue
		}
		j, dbg, tw := st.Req%len(p.Cfgs), 0, 0
		if st.Kind == "edit_passed_and_reconfigure" && st.Alien {
			j = curIdx[st.MW%len(mws)] % len(p.Cfgs)
		}
		curIdx[st.MW%len(mws)] = j
		if p.MWs[st.MW%len(mws)].Debug {
			dbg = 1
		}
		if st.Kind == "edit_passed_and_reconfigure" {
			tw = st.Val % 5
		}
		if refs[[3]int{j, dbg, tw}] != nil {
			continue
		}
		rf := &ref{}
		refs[[3]int{j, dbg, tw}] = rf
		target := tweakCfg(p.Cfgs[j], tw)
		fresh, ferr := mkMW(target.Config())
		if ferr != nil {
			continue
		}
		fresh.SetDebug(dbg == 1)
		fi := 0
		fsrv := fresh.Wrap(constHandler{n: &fi})
		// what the configurations the middleware may have had BEFORE allowed comes first (the
		// first comparison after the switch goes through the suite in this order): what an
		// earlier configuration allowed is of no consequence under this one
		for k, oc := range p.Cfgs {
			if k == j {
				continue
			}
			if m, _ := originsFor(oc); len(m) > 0 {
				for _, o := range m[:min(len(m), 40)] {
					rf.suite = append(rf.suite, Req{Method: "GET", H: []HV{{hOrigin, []string{o}}}})
				}
				for _, o := range m[:min(len(m), 6)] {
					rf.suite = append(rf.suite, preflight(o, "GET", nil, false))
				}
			}
		}
		rf.suite = append(rf.suite, probeSuite(target)...)
		rf.base = make([]Resp, len(rf.suite))
		for k, q := range rf.suite {
			rf.base[k] = serveWith(fsrv, q, nil, &fi)
		}
		rf.cfg, rf.ok = fresh.Config(), true
	}
	refFor := func(j int, debug bool, tw int) *ref {
		d := 0
		if debug {
			d = 1
		}
		return refs[[3]int{j, d, tw}]
	}
	// responses whose head is still to be serialised (F11): header map, its fingerprint when the middleware returned
	type pendingResp struct {
		h    http.Header
		fp   string
		what string
	}
	var pending []pendingResp
	check := func(step string, stepNo int) *Violation {
		defer func() {
			if len(pending) > 4 {
				pending = pending[len(pending)-4:]
			}
		}()
		for i, x := range mws {
			pokeGetters(x.m)
			order := permOf(p.Perm, uint64(stepNo*8+i), len(x.suite))
			if x.switched { // right after a switch to another configuration: in suite order
				x.switched = false
				for k := range order {
					order[k] = k
				}
			}
			for _, j := range order {
				got := serveWith(x.srv, x.suite[j], nil, &x.invoked)
				if got != x.base[j] {
					return &Violation{Class: "behaviour-changed", Key: stepKind(step), Detail: fmt.Sprintf("after %s: middleware %d (cfg %s, debug=%v) answers %s with %s; its reference (before any fault / a fresh middleware of that configuration) answered %s", step, i, p.Cfgs[x.cfgIdx%len(p.Cfgs)], p.MWs[i].Debug, x.suite[j], got, x.base[j])}
				}
			}
			c.hit("suite_compared")
			for _, pr := range pending {
				if late := headerFP(pr.h); late != pr.fp {
					return &Violation{Class: "response-changed-after-return", Key: stepKind(step), Detail: fmt.Sprintf("after %s: the head of the response to %s (handler wrote nothing; serialised when the chain has returned) was %s when the middleware returned and is %s now", step, pr.what, pr.fp, late)}
				}
			}
			if cfg := x.m.Config(); !reflect.DeepEqual(cfg, x.baseCfg) {
				return &Violation{Class: "config-changed", Key: stepKind(step), Detail: fmt.Sprintf("after %s: middleware %d Config() = %s; before any fault %s", step, i, cfgStr(cfg), cfgStr(x.baseCfg))}
			}
		}
		return nil
	}
	var last *Req
	lastMW := 0
	abandon := false
	for si, st := range p.Steps {
		betweenSteps("a step")
		x := mws[st.MW%len(mws)]
		step := fmt.Sprintf("#%d %s mw=%d", si, st.Kind, st.MW%len(mws))
		// the value written by this step's scribbler: from the fixed list, or a
		// near-miss origin of this middleware's own configuration
		vals := scribbleValues
		if _, miss := originsFor(p.Cfgs[p.MWs[st.MW%len(mws)].Cfg%len(p.Cfgs)]); len(miss) > 0 {
			vals = append(append([]string{}, scribbleValues...), miss[st.Val%len(miss)], miss[0])
		}
		scribbleVal = vals[st.Val%len(vals)]
		var stepV *Violation
		pan := catch(func() {
			switch st.Kind {
			case "req", "req_mutating_handler":
				src := x
				if st.Alien && len(mws) > 1 {
					src = mws[(st.MW+1)%len(mws)]
					c.hit("alien_request")
				}
				q := src.suite[st.Req%len(src.suite)]
				x.mutate = st.Kind == "req_mutating_handler"
				if x.mutate {
					c.Nontrivial = true
				}
				serveWith(x.srv, q, nil, &x.invoked)
				x.mutate = false
				last, lastMW = &q, st.MW%len(mws)
				step += " " + q.String()
			case "req_redispatch":
				// composition: while request A is being served, the wrapped handler dispatches
				// request B through the SAME wrapped handler into a fresh writer - a sub-request
				// or internal redirect that inherits A's context, as r.Clone / WithContext /
				// NewRequestWithContext give. B is answered as B alone would be.
				qa := x.suite[st.Req%len(x.suite)]
				jb := (st.Req / 7) % len(x.suite)
				qb := x.suite[jb]
				var got Resp
				done := false
				x.redis = func(ra *http.Request) {
					got = serveDerived(x.srv, qb, nil, &x.invoked, func(rb *http.Request) *http.Request {
						switch st.Val % 3 {
						case 0:
							return rb.WithContext(ra.Context())
						case 1:
							return rb.Clone(ra.Context())
						default: // the request in flight itself, rewritten
							rc := ra.Clone(ra.Context())
							rc.Method, rc.Header, rc.Host, rc.URL, rc.Body = rb.Method, rb.Header, rb.Host, rb.URL, rb.Body
							rc.Proto, rc.ProtoMajor, rc.ProtoMinor, rc.TLS, rc.RequestURI = rb.Proto, rb.ProtoMajor, rb.ProtoMinor, rb.TLS, rb.RequestURI
							return rc
						}
					})
					done = true
				}
				serveWith(x.srv, qa, nil, &x.invoked)
				x.redis = nil
				c.hit("F17_sub_request_through_the_same_chain")
				if done && got != x.base[jb] {
					stepV = &Violation{Class: "behaviour-changed", Key: "redispatch", Detail: fmt.Sprintf("while %s was being served, the wrapped handler dispatched %s through the same chain (context inherited, fresh writer): answered with %s; the same request alone is answered with %s", qa, qb, got, x.base[jb])}
				}
			case "req_lazy":
				// F11: the wrapped handler sets a header of its own and writes nothing, so the
				// head of this response is serialised only when the chain has returned -
				// after whatever the server does next. check() looks at it again.
				q := x.suite[st.Req%len(x.suite)]
				w := newRec(nil)
				x.quiet = true
				x.srv.ServeHTTP(w, q.build())
				x.quiet = false
				pending = append(pending, pendingResp{w.h, headerFP(w.h), q.String()})
				c.hit("F11_head_serialised_late")
				c.Nontrivial = true
				step += " " + q.String()
			case "req_crash":
				// F10: the request dies at one of the seams - the k-th call of the
				// ResponseWriter (Header / WriteHeader / Write) panics, or the wrapped
				// handler does (k = 0; with http.ErrAbortHandler for even values) - and
				// the server recovers, as net/http's does. Whatever the middleware held at
				// that instant (a lock, a pooled buffer, a half-built header set) must not
				// leak into any later response.
				q := x.suite[st.Req%len(x.suite)]
				k := st.Val % 6
				w := &crashWriter{recWriter: newRec(nil), at: k}
				x.crashNow = k == 0
				x.crashVal = any("handler crashed (injected)")
				if st.Val%2 == 0 {
					x.crashVal = http.ErrAbortHandler
				}
				func() {
					defer func() {
						if pv := recover(); pv != nil {
							if pv == x.crashVal || pv == any(crashWriterPanic) {
								c.hit("F10_request_crashed_at_a_seam")
								c.Nontrivial = true
								return
							}
							panic(pv) // not ours: the middleware's own panic
						}
					}()
					x.srv.ServeHTTP(w, q.build())
				}()
				x.crashNow = false
				step += fmt.Sprintf(" at=%d %s", k, q.String())
			case "req_then_scribble_request":
				// the caller (e.g. a server recycling its buffers) overwrites the request's
				// header slices AFTER the request has been served
				q := x.suite[st.Req%len(x.suite)]
				rq := q.build()
				w := newRec(nil)
				x.srv.ServeHTTP(w, rq)
				n := 0
				for k, vs := range rq.Header {
					n += scribble(vs)
					rq.Header[k] = append(vs, junk)
				}
				if n > 0 {
					c.hit("F4_caller_scribbles_request_after_return")
					c.Nontrivial = true
				}
				step += " " + q.String()
			case "edit_passed_and_reconfigure":
				// the most natural caller flow: keep ONE Config value around, edit it IN
				// PLACE (same backing arrays where they are big enough) to say what
				// configuration j says, and pass the very same pointer to Reconfigure
				// again. The result must equal a fresh middleware of configuration j.
				j := st.Req % len(p.Cfgs)
				if st.Alien {
					j = x.cfgIdx % len(p.Cfgs) // the configuration installed now, with one element changed: the smallest edit
				}
				target := tweakCfg(p.Cfgs[j], st.Val%5).Config()
				dbg := p.MWs[st.MW%len(mws)].Debug
				rf := refFor(j, dbg, st.Val%5)
				if rf == nil || !rf.ok {
					abandon = true
					return
				}
				pc := x.passed
				pc.Origins = editInPlace(pc.Origins, target.Origins)
				pc.Methods = editInPlace(pc.Methods, target.Methods)
				pc.RequestHeaders = editInPlace(pc.RequestHeaders, target.RequestHeaders)
				pc.ResponseHeaders = editInPlace(pc.ResponseHeaders, target.ResponseHeaders)
				pc.Credentialed, pc.MaxAgeInSeconds, pc.ExtraConfig = target.Credentialed, target.MaxAgeInSeconds, target.ExtraConfig
				if err := reconfN(x.m, pc); err != nil {
					panic("a configuration NewMiddleware accepts was rejected by Reconfigure: " + err.Error())
				}
				setDebugN(x.m, dbg)
				x.cfgIdx, x.tw = j, st.Val%5
				x.suite, x.base, x.baseCfg = rf.suite, rf.base, rf.cfg
				c.hit("F4_passed_config_edited_in_place_and_reused")
				if st.Alien && x.tw != 0 {
					c.hit("one_element_of_the_passed_config_edited_in_place")
				}
				c.Nontrivial = true
			case "reconf_other":
				// Reconfigure to ANOTHER configuration of the plan: from now on this
				// middleware, with everything it has served and suffered so far, must be
				// indistinguishable from a FRESH middleware of that configuration
				// (nothing remembered across a reconfiguration)
				j := st.Req % len(p.Cfgs)
				cc := p.Cfgs[j].Config()
				dbg := p.MWs[st.MW%len(mws)].Debug
				rf := refFor(j, dbg, 0)
				if rf == nil || !rf.ok {
					abandon = true
					return
				}
				if err := reconfN(x.m, &cc); err != nil {
					panic("a configuration NewMiddleware accepts was rejected by Reconfigure: " + err.Error())
				}
				setDebugN(x.m, dbg)
				x.passed, x.cfgIdx, x.tw = &cc, j, 0
				x.suite, x.base, x.baseCfg = rf.suite, rf.base, rf.cfg
				x.switched = true
				c.hit("reconfigure_to_other_config_vs_fresh")
			case "reconf_again":
				// Reconfigure with a FRESH copy of the same configuration (the memory passed
				// earlier may have been scribbled over meanwhile): behaviour must stay put
				cc := tweakCfg(p.Cfgs[x.cfgIdx%len(p.Cfgs)], x.tw).Config()
				if err := reconfN(x.m, &cc); err != nil {
					panic("harness: valid configuration rejected on reconf_again: " + err.Error())
				}
				x.passed = &cc
				x.m.SetDebug(p.MWs[st.MW%len(mws)].Debug)
				c.hit("reconfigure_again_same_config")
			case "dup":
				if last != nil {
					c.hit("F6_duplicate_request")
					y := mws[lastMW]
					serveWith(y.srv, *last, nil, &y.invoked)
					serveWith(x.srv, *last, nil, &x.invoked) // and the identical request to another middleware
				}
			case "scribble_input":
				if scribbleConfig(x.passed) > 0 {
					c.hit("F4_scribble_input_config")
					c.Nontrivial = true
				}
			case "flip_scalars":
				flipScalars(x.passed)
				c.hit("F4_flip_scalars")
				c.Nontrivial = true
			case "scribble_config_result":
				if cfg := x.m.Config(); cfg != nil && scribbleConfig(cfg) > 0 {
					flipScalars(cfg)
					c.hit("F4_scribble_config_result")
					c.Nontrivial = true
				}
			case "keep_config_result":
				x.kept = append(x.kept, x.m.Config())
			case "scribble_kept":
				for _, cfg := range x.kept {
					if cfg != nil && scribbleConfig(cfg) > 0 {
						flipScalars(cfg)
						c.hit("F4_scribble_kept_config_result")
						c.Nontrivial = true
					}
				}
				x.kept = nil
			}
		})
		if pan != "" {
			return &Violation{Class: "panic", Key: st.Kind, Detail: step + ": " + pan}
		}
		if stepV != nil {
			return stepV
		}
		if abandon {
			c.hit("generator_rejected")
			return nil
		}
		c.logf("%s", step)
		if v := check(step, si); v != nil {
			return v
		}
	}
	return nil
}

func stepKind(step string) string {
	var n int
	var kind string
	fmt.Sscanf(step, "#%d %s", &n, &kind)
	return kind
}

func (c12) Shrink(plan any) []any {
	p := plan.(*C12Plan)
	var out []any
	// drop suffix halves first, then single steps
	if len(p.Steps) > 1 {
		q := *p
		q.Steps = p.Steps[:len(p.Steps)/2]
		out = append(out, &q)
	}
	for i := len(p.Steps) - 1; i >= 0; i-- {
		q := *p
		q.Steps = append(append([]C12Step{}, p.Steps[:i]...), p.Steps[i+1:]...)
		out = append(out, &q)
	}
	if len(p.MWs) > 1 {
		last := len(p.MWs) - 1
		shared := false
		for _, m := range p.MWs {
			if m.ShareWith-1 == last {
				shared = true
			}
		}
		if !shared {
			q := *p
			q.MWs = p.MWs[:last]
			out = append(out, &q)
		}
	}
	for i, m := range p.MWs {
		if m.Debug || m.ViaReconf || m.ShareWith > 0 {
			q := *p
			q.MWs = append([]C12MW{}, p.MWs...)
			switch {
			case m.ShareWith > 0:
				q.MWs[i].ShareWith = 0
			case m.Debug:
				q.MWs[i].Debug = false
			default:
				q.MWs[i].ViaReconf = false
			}
			out = append(out, &q)
		}
	}
	for i, st := range p.Steps {
		if st.Alien {
			q := *p
			q.Steps = append([]C12Step{}, p.Steps...)
			q.Steps[i].Alien = false
			out = append(out, &q)
		}
	}
	for i, cfg := range p.Cfgs {
		for _, sc := range shrinkCfg(cfg) {
			q := *p
			q.Cfgs = append([]Cfg{}, p.Cfgs...)
			q.Cfgs[i] = sc
			out = append(out, &q)
		}
	}
	return out
}
