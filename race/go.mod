module verif/race

go 1.23.0

require github.com/jub0bs/cors v0.0.0

require (
	golang.org/x/net v0.38.0 // indirect
	golang.org/x/text v0.23.0 // indirect
)

replace github.com/jub0bs/cors => /repo
