// racestress is the data-race companion of the C07 check (DESIGN §3 C07):
// the UNINSTRUMENTED tree built with -race, free-running goroutines issuing
// requests and Reconfigure/SetDebug/Config calls on one shared Middleware,
// operator calls also issued re-entrantly from inside Header(), WriteHeader()
// and the wrapped handler. It is not schedule-controlled: its verdict (a
// happens-before violation reported by the race runtime) depends only on both
// accesses executing, which the workload guarantees. Run with
// GORACE="halt_on_error=1 exitcode=66".
//
// It also checks, cheaply, that every response equals the response of SOME
// single (configuration, debug) state of the run (no mixed state), using
// responses computed sequentially beforehand.
package main

import (
	"encoding/json"
	"flag"
	"fmt"
	"math/rand/v2"
	"net/http"
	"net/url"
	"os"
	"sort"
	"strings"
	"sync"
	"sync/atomic"
	"time"

	"github.com/jub0bs/cors"
)

var cfgs = []cors.Config{
	{Origins: []string{"https://example.com", "https://*.example.org:*", "http://localhost:8080"}, Credentialed: true,
		Methods: []string{"PUT", "DELETE", "PATCH"}, RequestHeaders: []string{"Authorization", "X-Foo", "Content-Type"},
		MaxAgeInSeconds: 600, ResponseHeaders: []string{"X-Response-Time", "ETag"}},
	{Origins: []string{"*"}, Methods: []string{"*"}, RequestHeaders: []string{"*", "Authorization"}, ResponseHeaders: []string{"*"}, MaxAgeInSeconds: -1,
		ExtraConfig: cors.ExtraConfig{PreflightSuccessStatus: 200}},
	{Origins: []string{"https://example.com", "http://[::1]:9090"}, Methods: []string{"PURGE"}, RequestHeaders: []string{"X-Bar"},
		ExtraConfig: cors.ExtraConfig{PrivateNetworkAccess: true, PreflightSuccessStatus: 299}},
	{Origins: []string{"https://foo.example.org"}, Credentialed: true, RequestHeaders: []string{"*"}, MaxAgeInSeconds: 5},
}

var invalid = cors.Config{Origins: []string{"https://example.com:443", "null"}, Methods: []string{"CONNECT"}, MaxAgeInSeconds: -2}

type req struct {
	method string
	hdr    map[string][]string
}

func (q req) key() string {
	ks := make([]string, 0, len(q.hdr))
	for k := range q.hdr {
		ks = append(ks, k)
	}
	sort.Strings(ks)
	s := q.method
	for _, k := range ks {
		s += fmt.Sprintf(" %s=%q", k, q.hdr[k])
	}
	return s
}

func requests() []req {
	var out []req
	origins := []string{"https://example.com", "https://a.example.org:8443", "http://localhost:8080", "https://evil.test", "http://[::1]:9090", "https://foo.example.org"}
	out = append(out, req{"GET", nil}, req{"OPTIONS", nil})
	for _, o := range origins {
		out = append(out, req{"GET", map[string][]string{"Origin": {o}}}, req{"OPTIONS", map[string][]string{"Origin": {o}}})
		for _, m := range []string{"GET", "PUT", "PURGE", "UNLISTED"} {
			for _, h := range [][]string{nil, {"authorization"}, {"content-type,x-foo"}, {"x-bar"}, {"x-nope"}} {
				hd := map[string][]string{"Origin": {o}, "Access-Control-Request-Method": {m}}
				if h != nil {
					hd["Access-Control-Request-Headers"] = h
				}
				out = append(out, req{"OPTIONS", hd})
			}
			out = append(out, req{"OPTIONS", map[string][]string{"Origin": {o}, "Access-Control-Request-Method": {m}, "Access-Control-Request-Private-Network": {"true"}}})
		}
	}
	return out
}

type writer struct {
	h      http.Header
	status int
	body   []byte
	hook   func(where string)
	snap   string
}

func (w *writer) Header() http.Header {
	if w.hook != nil {
		w.hook("header")
	}
	return w.h
}
func (w *writer) WriteHeader(s int) {
	if w.hook != nil {
		w.hook("writeheader")
	}
	if w.status == 0 {
		w.status = s
		w.snap = fp(w.h)
	}
}
func (w *writer) Write(b []byte) (int, error) {
	if w.status == 0 {
		w.status = 200
		w.snap = fp(w.h)
	}
	w.body = append(w.body, b...)
	return len(b), nil
}

func fp(h http.Header) string {
	ks := make([]string, 0, len(h))
	for k := range h {
		ks = append(ks, k)
	}
	sort.Strings(ks)
	var sb strings.Builder
	for _, k := range ks {
		fmt.Fprintf(&sb, "%s=%q;", k, h[k])
	}
	return sb.String()
}

var theURL = &url.URL{Scheme: "https", Host: "server.test", Path: "/"}

func serve(h http.Handler, q req, hook func(string)) string {
	hd := http.Header{}
	for k, v := range q.hdr {
		hd[k] = append([]string{}, v...)
	}
	w := &writer{h: http.Header{}, hook: hook}
	h.ServeHTTP(w, &http.Request{Method: q.method, URL: theURL, Header: hd})
	s := w.snap
	if w.status == 0 {
		s = fp(w.h)
	}
	return fmt.Sprintf("%d %s %q", w.status, s, w.body)
}

func serveRecover(h http.Handler, q req, hook func(string)) (out string, pan string) {
	defer func() {
		if p := recover(); p != nil {
			pan = fmt.Sprint(p)
		}
	}()
	return serve(h, q, hook), ""
}

type handler struct{ hook func(string) }

func (h handler) ServeHTTP(w http.ResponseWriter, r *http.Request) {
	// what an ordinary application handler does: read the request headers,
	// look at and extend the response headers, write a body
	n := 0
	for _, vs := range r.Header {
		for _, v := range vs {
			n += len(v)
		}
	}
	rh := w.Header()
	for _, vs := range rh {
		for _, v := range vs {
			n += len(v)
		}
	}
	if h.hook != nil {
		h.hook("handler")
	}
	w.WriteHeader(200)
	w.Write([]byte("ok"))
}

func main() {
	dur := flag.Duration("d", 8*time.Second, "duration")
	gor := flag.Int("g", 16, "goroutines")
	seed := flag.Uint64("seed", 1, "seed for the operation mix")
	out := flag.String("out", "", "stats JSON")
	flag.Parse()

	reqs := requests()
	// admissible responses: every (configuration, debug) state and passthrough, computed sequentially
	adm := make([]map[string]bool, len(reqs))
	for i := range adm {
		adm[i] = map[string]bool{}
	}
	plain := handler{}
	for i, q := range reqs {
		adm[i][serve(new(cors.Middleware).Wrap(plain), q, nil)] = true
	}
	for _, c := range cfgs {
		for _, dbg := range []bool{false, true} {
			m, err := cors.NewMiddleware(c)
			if err != nil {
				fmt.Println("racestress: a built-in configuration is rejected:", err)
				os.Exit(2)
			}
			m.SetDebug(dbg)
			for i, q := range reqs {
				adm[i][serve(m.Wrap(plain), q, nil)] = true
			}
		}
	}
	// Config() normal forms
	admCfg := map[string]bool{"null": true}
	for _, c := range cfgs {
		m, _ := cors.NewMiddleware(c)
		b, _ := json.Marshal(m.Config())
		admCfg[string(b)] = true
	}

	m, _ := cors.NewMiddleware(cfgs[0])
	var nReq, nOp, nReent, bad atomic.Int64
	var firstBad atomic.Value
	operator := func(r *rand.Rand) {
		nOp.Add(1)
		switch r.IntN(7) {
		case 0, 1:
			c := cfgs[r.IntN(len(cfgs))]
			if err := m.Reconfigure(&c); err != nil {
				bad.Add(1)
				firstBad.CompareAndSwap(nil, "valid Reconfigure failed: "+err.Error())
			}
		case 2:
			m.Reconfigure(nil)
		case 3:
			c := invalid
			if m.Reconfigure(&c) == nil {
				bad.Add(1)
				firstBad.CompareAndSwap(nil, "invalid configuration accepted")
			}
		case 4:
			m.SetDebug(r.IntN(2) == 0)
		case 5:
			b, _ := json.Marshal(m.Config())
			if !admCfg[string(b)] {
				bad.Add(1)
				firstBad.CompareAndSwap(nil, "Config() matches no state: "+string(b))
			}
		case 6:
			if err := m.Reconfigure(m.Config()); err != nil {
				bad.Add(1)
				firstBad.CompareAndSwap(nil, "Reconfigure(Config()) failed: "+err.Error())
			}
		}
	}
	stop := time.Now().Add(*dur)
	var wg sync.WaitGroup
	for g := 0; g < *gor; g++ {
		wg.Add(1)
		go func(g int) {
			defer wg.Done()
			r := rand.New(rand.NewPCG(*seed, uint64(g)))
			isOperator := g%8 >= 5 // 3 of 8 goroutines are operators
			for i := 0; time.Now().Before(stop); i++ {
				if isOperator {
					operator(r)
					continue
				}
				qi := r.IntN(len(reqs))
				var hook func(string)
				if r.IntN(10) == 0 {
					where := []string{"header", "writeheader", "handler"}[r.IntN(3)]
					done := false
					hook = func(at string) {
						if at == where && !done {
							done = true
							nReent.Add(1)
							operator(r)
						}
					}
				}
				got, pan := serveRecover(m.Wrap(handler{hook}), reqs[qi], hook)
				nReq.Add(1)
				if pan != "" {
					bad.Add(1)
					firstBad.CompareAndSwap(nil, fmt.Sprintf("PANIC under concurrency (the sequential code never panics): %s -> %s", reqs[qi].key(), pan))
					continue
				}
				if !adm[qi][got] {
					bad.Add(1)
					firstBad.CompareAndSwap(nil, fmt.Sprintf("response matches no single (configuration, debug) state: %s -> %s", reqs[qi].key(), got))
				}
			}
		}(g)
	}
	wg.Wait()
	stats := map[string]any{"requests": nReq.Load(), "operator_calls": nOp.Load(), "reentrant_operator_calls": nReent.Load(),
		"goroutines": *gor, "duration_s": dur.Seconds(), "seed": *seed, "responses_matching_no_state": bad.Load(), "race_detector": "on (go build -race), none reported"}
	if fb := firstBad.Load(); fb != nil {
		stats["first_mismatch"] = fb
	}
	b, _ := json.MarshalIndent(stats, "", " ")
	if *out != "" {
		os.WriteFile(*out, b, 0o644)
	}
	fmt.Println(string(b))
	if bad.Load() > 0 {
		os.Exit(1)
	}
}
