#!/usr/bin/env python3
"""Validate evidence files and MANIFEST.json against the given schemas (offline)."""
import json, sys, glob
try:
    import jsonschema
except ImportError:
    sys.exit("run with python3-vt (jsonschema lives in the tooling venv)")
ok = True
ev = json.load(open('/root/.vp/EVIDENCE.schema.json'))
for f in sorted(glob.glob('/verif/evidence/*.json')):
    try:
        jsonschema.validate(json.load(open(f)), ev)
        print('valid', f)
    except Exception as e:
        ok = False
        print('INVALID', f, str(e)[:300])
try:
    jsonschema.validate(json.load(open('/verif/MANIFEST.json')), json.load(open('/root/.vp/MANIFEST.schema.json')))
    print('valid MANIFEST.json')
except FileNotFoundError:
    print('no MANIFEST.json yet')
except Exception as e:
    ok = False
    print('INVALID MANIFEST.json', str(e)[:300])
sys.exit(0 if ok else 1)
