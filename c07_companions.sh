#!/usr/bin/env bash
# Companions of the C07 check (called by ./check C07 <tier>):
#  1. translation sanity: the repository's own tests must pass on the instrumented scratch copy with
#     the simulator hooks off (failure => exit 2, the instrumentation cannot be trusted);
#  2. data-race clause: the UNINSTRUMENTED tree built with -race under a free-running stress
#     (not schedule-controlled; see sim/stress.go). A reported race or a response matching no single
#     state is a violation (exit 1, VIOLATION line, report kept under replays/C07/).
# Writes $2/companions.json, which the simulator embeds into evidence/C07.json.
set -u
tier=$1; S=$2
export GOFLAGS=-mod=mod GOPROXY=off GOSUMDB=off GOTOOLCHAIN=local
VERIF=$(cd "$(dirname "$0")" && pwd)
REPO=${VERIF_REPO:-/repo}
seed=${VERIF_SEED:-1}
dur=8s; [ "$tier" = thorough ] && dur=120s

# 1. translation sanity
if ! (cd "$S/repo" && go test -vet=off -count=1 ./... >"$S/instr-tests.log" 2>&1); then
  if (cd "$REPO" && go test -vet=off -count=1 ./... >/dev/null 2>&1); then
    echo "check: the repository's tests pass on /repo but FAIL on the instrumented copy: instrumentation is unsound (exit 2)"; tail -20 "$S/instr-tests.log"; exit 2
  fi
  sanity="skipped: the repository's own tests fail on this tree"
else
  sanity="passed: go test ./... on the instrumented copy, hooks off"
fi

# 2. race stress: the simulator binary itself (generators, probe suites) built with -race against the UNINSTRUMENTED tree
sed "s#=> /repo#=> $REPO#" "$VERIF/sim/go.mod" >"$S/race.mod"; cp "$VERIF/sim/go.sum" "$S/race.sum"
(cd "$VERIF/sim" && go build -modfile="$S/race.mod" -race -o "$S/racestress" .) >"$S/race-build.log" 2>&1 || {
  echo "check: BUILD FAILED (race companion; exit 2)"; cat "$S/race-build.log"; exit 2; }
VERIF_SEED=$seed GORACE="halt_on_error=1 exitcode=66" "$S/racestress" stress -d "$dur" -out "$S/race.json" >"$S/race.out" 2>"$S/race.err"
rc=$?
status=0
RD=${VERIF_REPLAY_DIR:-$VERIF/replays}/C07
case $rc in
  0) verdict="no data race reported, every response matched a single state" ;;
  66) mkdir -p "$RD"; f="$RD/race-$seed.txt"
      { echo "# data race reported by the Go race detector; reproduce with:"; echo "#   ./check C07 $tier   (or: cd sim && go build -race -o /tmp/rs . && VERIF_SEED=$seed GORACE=halt_on_error=1 /tmp/rs stress -d $dur)"; cat "$S/race.err"; } >"$f"
      echo "  class=data-race: $(grep -m1 -A3 'WARNING: DATA RACE' "$S/race.err" | tr '\n' ' ' | cut -c1-300)"
      echo "VIOLATION property=C07 replay=$f"; verdict="DATA RACE reported"; status=1 ;;
  1) mkdir -p "$RD"; f="$RD/race-mismatch-$seed.txt"; cat "$S/race.out" >"$f"
      cls=response-matches-no-state
      grep -q 'PANIC' "$S/race.out" && cls=panic-under-concurrency
      grep -q 'DEADLOCK' "$S/race.out" && cls=deadlock-under-concurrency
      echo "  class=$cls: $(grep first_mismatch "$S/race.out" | cut -c1-400)"
      echo "VIOLATION property=C07 replay=$f"; verdict="response matching no single state"; status=1 ;;
  *) echo "check: race companion crashed (exit $rc; reported as harness trouble, exit 2)"; tail -30 "$S/race.err"; exit 2 ;;
esac
python3 - "$S" "$sanity" "$verdict" "$status" <<'PY'
import json, sys, os
S, sanity, verdict, status = sys.argv[1:5]
race = {}
try: race = json.load(open(os.path.join(S, 'race.json')))
except Exception: pass
json.dump({"instrumentation_sanity": sanity,
           "race_companion": {"verdict": verdict, "violation": int(status), "stats": race,
                              "note": "free-running goroutines on the uninstrumented tree built with -race; NOT schedule-controlled; replay artefact is the race report plus these arguments"}},
          open(os.path.join(S, 'companions.json'), 'w'), indent=1)
PY
exit $status
