#!/usr/bin/env python3
"""Generates /verif/MANIFEST.json. Edit the tables here, run, commit."""
import json

NA = {
 "C01": "pure function of (pattern list, origin): insertion order is part of the input; no schedule, history, clock, fault or second party for a simulator to control (DESIGN §4)",
 "C03": "per-response safety fact fixed by (configuration, debug, one request): an unbounded input space, no schedule/history/fault dimension (DESIGN §4)",
 "C04": "soundness of the validator: a pure function of one Config value (DESIGN §4)",
 "C05": "completeness and typing of the validator's error: a pure function of one Config value (DESIGN §4)",
 "C13": "acceptance/rejection of a single string by the pattern grammar: pure function of the input (DESIGN §4)",
 "C14": "an iff over byte strings for one scanner function; its only multi-party clause (browser lists altered in flight within tolerance) is exercised as fault F5 inside C02 (DESIGN §4)",
 "C15": "metamorphic relation between two independently and purely constructed middlewares; nothing for a scheduler or fault injector to vary (DESIGN §4)",
 "C16": "what one response discloses is fixed by (configuration, one request) (DESIGN §4)",
 "C17": "panic-freedom over all inputs is input-space coverage (fuzzing); every engine here treats a panic as an outcome, but that decides nothing about all inputs (DESIGN §4)",
 "C18": "an allocation count is a measurement of a deterministic function; Go has no failing-allocation seam and the count does not depend on schedules (DESIGN §4)",
}

# id -> (engine, category, technique, level text, level note, design ref)
CLAIMED = {}

def claim(pid, engine, cat, technique, text, note, ref):
    CLAIMED[pid] = dict(engine=engine, cat=cat, technique=technique, text=text, note=note, ref=ref)

PENDING = {}

exec(open('/verif/manifest_claims.py').read())

checks = []
for pid in sorted(CLAIMED):
    c = CLAIMED[pid]
    checks.append({
        "property_id": pid,
        "quick_cmd": f"./check {pid} quick",
        "thorough_cmd": f"./check {pid} thorough",
        "evidence_file": f"/verif/evidence/{pid}.json",
        "replay_cmd_template": "./check replay {path}",
        "engine": c["engine"],
        "level_claimed": {"category": c["cat"], "text": c["text"], "design_ref": c["ref"]},
        "level_note": c["note"],
        "technique": c["technique"],
    })

na = [{"property_id": k, "reason": v} for k, v in sorted({**NA, **PENDING}.items()) if k not in CLAIMED]

manifest = {
 "version": 1,
 "setup_cmd": "./setup.sh",
 "hooks": {
  "guard": "verif",
  "enable": "No hook is committed to /repo. Schedule control for C07 and for stage 1 of C19 (concurrent consumers) is obtained at check time: ./check copies /repo's working tree to a scratch directory, tools/instrument inserts simrt.Yield before every statement of every package (splitting tuple assignments whose right-hand sides contain two or more calls), routes X.Lock()/X.RLock() through simrt.Acquire and sync.Once.Do through simrt.OnceDo (go/ast rewrite), and the simulator is built against that copy with -tags concsim. All other engines build against /repo itself through the public API - unless the tree under test imports \"time\" (the pinned tree does not): then every build goes through such a copy in which time.Now/Since/Until/Sleep/AfterFunc read the simulator's clock (tools/instrument -clock, -tags simclock).",
  "baseline_off_cmd": "cd /repo && GOFLAGS=-mod=mod GOPROXY=off GOSUMDB=off go test -vet=off -count=1 ./...",
  "source_commits": [],
  "add_only": True,
 },
 "engines": ENGINES,
 "checks": checks,
 "not_applicable": na,
 "notes": NOTES,
}
json.dump(manifest, open('/verif/MANIFEST.json', 'w'), indent=1)
print("claimed:", sorted(CLAIMED), "not_applicable:", [x["property_id"] for x in na])
