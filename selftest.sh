#!/usr/bin/env bash
# Determinism self-test (DESIGN §2.7): for every engine, N seeds are generated and executed in several
# fresh processes at GOMAXPROCS 1, 4 and 16; plan hashes, event-log hashes, step counts and verdicts must
# be byte-identical across all processes. Exit 0 identical, 2 divergence (harness defect, never a verdict).
# usage: ./selftest.sh [-n seeds] [ids...]
set -u
export GOFLAGS=-mod=mod GOPROXY=off GOSUMDB=off GOTOOLCHAIN=local
V=$(cd "$(dirname "$0")" && pwd)
REPO=${VERIF_REPO:-/repo}; export VERIF_REPO="$REPO"
n=64
if [ "${1:-}" = "-n" ]; then n=$2; shift 2; fi
ids=${*:-C02 C06 C07 C08 C09 C10 C11 C12 C19 C19conc}   # C19conc: the C19 engine of the schedule-controlled build (concurrent-consumers world)
S=$(mktemp -d "${TMPDIR:-/var/tmp}/verif-selftest.XXXXXX") || exit 2
trap 'rm -rf "$S"' EXIT
if grep -n 'sync\.Map' "$V"/sim/*.go; then echo "selftest: sync.Map in the harness (iteration order is random)"; exit 2; fi
(cd "$V/sim" && go build -o "$S/plain" .) || exit 2
mkdir -p "$S/repo"; (cd "$REPO" && tar --exclude=.git -cf - .) | tar -xf - -C "$S/repo"
(cd "$V/tools/instrument" && go build -o "$S/instrument" . && "$S/instrument" "$S/repo" >/dev/null) || exit 2
sed "s#=> /repo#=> $S/repo#" "$V/sim/go.mod" >"$S/conc.mod"; cp "$V/sim/go.sum" "$S/conc.sum"
(cd "$V/sim" && go build -modfile="$S/conc.mod" -tags concsim -o "$S/conc" .) || exit 2
(cd "$V/sim" && go test -count=1 -run "TestBrowserModelPieces|TestProtocolTable|TestCacheModelPieces|TestFlattenReference|TestPreflightCacheModel" . >"$S/models.log" 2>&1) || { echo "selftest: the trusted models disagree with their hand-written table"; cat "$S/models.log"; exit 2; }
echo "selftest: browser / permits / cache / flatten models agree with their hand-written tables"
rc=0
for id in $ids; do
  bin="$S/plain"; eng=$id
  [ "$id" = C07 ] && bin="$S/conc"
  [ "$id" = C19conc ] && { bin="$S/conc"; eng=C19; }
  i=0
  for gmp in 1 4 16 1 4 16; do
    i=$((i+1))
    GOMAXPROCS=$gmp "$bin" selftest "$eng" -seeds "$n" >"$S/$id.$i.out" 2>&1 &
  done
  wait
  for i in 2 3 4 5 6; do
    if ! cmp -s "$S/$id.1.out" "$S/$id.$i.out"; then
      echo "selftest: $id DIVERGES between process 1 and process $i:"; diff "$S/$id.1.out" "$S/$id.$i.out" | head -6; rc=2
    fi
  done
  lines=$(wc -l <"$S/$id.1.out")
  [ "$lines" -eq "$n" ] || { echo "selftest: $id produced $lines lines, expected $n"; head -3 "$S/$id.1.out"; rc=2; }
  [ $rc -eq 0 ] && echo "selftest: $id deterministic over $n seeds x 6 fresh processes (GOMAXPROCS 1,4,16)"
done
exit $rc
